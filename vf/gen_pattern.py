"""G2 + O2: typed patterned tensors as plain specs, an independent dense interpreter, and builders.

Index type      T   ::= ['atom', n] | ['prod', [T...]] | ['sum', [T...]]
Pattern         P   ::= {'p': k}                       physical axis number k of this tensor
                      | {'prod': [P...]}               product (unit axis = {'prod': []})
                      | {'sum': [before, P, after]}
Tensor spec     {'paxes': [size...], 'vaxes': [P...], 'phys': flat list (row-major over the *base* shape),
                 'bcast': [physical dims that are stride-0 broadcast views], 'default': d, 'dtype': 'float64'|'float32'|'bool'}
"""
from __future__ import annotations
import itertools, math
from hypothesis import strategies as st
import numpy as np

INF = float('inf')
NAN = float('nan')

# ------------------------------------------------------------------ types

def numel(T):
    if T[0] == 'atom': return T[1]
    if T[0] == 'prod':
        n = 1
        for t in T[1]: n *= numel(t)
        return n
    return sum(numel(t) for t in T[1])


def tkey(T):
    return repr(T)


@st.composite
def types(draw, max_numel=12, depth=2, allow_zero=False, atoms=(1, 2, 2, 3, 3, 4)):
    kind = draw(st.sampled_from(['atom', 'atom', 'atom', 'prod', 'sum'])) if depth > 0 else 'atom'
    if kind == 'atom':
        choices = [a for a in atoms if a <= max_numel] or [1]
        if allow_zero and draw(st.integers(0, 9)) == 0:
            return ['atom', 0]
        return ['atom', draw(st.sampled_from(choices))]
    k = draw(st.integers(2, 3))
    subs = []
    if kind == 'prod':
        rem = max_numel
        for i in range(k):
            if rem < 1: break
            t = draw(types(max_numel=max(1, rem), depth=depth - 1, atoms=atoms))
            n = max(1, numel(t))
            if n > rem: t = ['atom', 1]; n = 1
            subs.append(t); rem //= n
        return ['prod', subs]
    # a sum has at least two summands (a one-summand sum "0 + X + 0" is never built by the library itself
    # and its size-1 instance confuses product unification; not generated -- see DESIGN.md, C06 guards)
    if max_numel < 2:
        return ['atom', 1]
    k = min(k, max_numel)
    rem = max_numel
    for i in range(k):
        t = draw(types(max_numel=max(1, rem - (k - 1 - i)), depth=depth - 1, atoms=atoms))
        if numel(t) > rem - (k - 1 - i) or numel(t) < 1: t = ['atom', 1]
        subs.append(t); rem -= numel(t)
    return ['sum', subs]


# ------------------------------------------------------------------ patterns of a type

def _gen_pat(draw, T, env, p_reuse, p_dense):
    """env: {'sizes': [...], 'keys': [...]}; returns a pattern, extending env with new physical axes."""
    key = tkey(T)
    n = numel(T)
    cands = [k for k, kk in enumerate(env['keys']) if kk == key]
    if cands and draw(st.floats(0, 1)) < p_reuse:
        return {'p': draw(st.sampled_from(cands))}
    def new_axis():
        env['sizes'].append(n); env['keys'].append(key)
        return {'p': len(env['sizes']) - 1}
    if T[0] == 'atom':
        if n == 1 and draw(st.booleans()):
            return {'prod': []}
        return new_axis()
    if draw(st.floats(0, 1)) < p_dense:
        return new_axis()
    if T[0] == 'prod':
        return {'prod': [_gen_pat(draw, t, env, p_reuse, p_dense) for t in T[1]]}
    i = draw(st.integers(0, len(T[1]) - 1))
    before = sum(numel(t) for t in T[1][:i])
    after = sum(numel(t) for t in T[1][i + 1:])
    return {'sum': [before, _gen_pat(draw, T[1][i], env, p_reuse, p_dense), after]}


DEFAULTS_FLOAT = (0.0, 0.0, 0.0, 1.0, -1.0, 7.0, -INF, INF)
VALUES_FLOAT = (0.0, 1.0, -1.0, 2.0, 0.5, -2.5, 3.0, 7.0)


@st.composite
def tensor_specs(draw, tys, values=VALUES_FLOAT, defaults=DEFAULTS_FLOAT, dtype='float64', p_reuse=0.25,
                 p_dense=0.35, p_bcast=0.15, force_dense=False):
    """A patterned tensor whose virtual dimensions have the given index types."""
    env = {'sizes': [], 'keys': []}
    if force_dense:
        vaxes = []
        for T in tys:
            env['sizes'].append(numel(T)); env['keys'].append(tkey(T))
            vaxes.append({'p': len(env['sizes']) - 1})
    else:
        vaxes = [_gen_pat(draw, T, env, p_reuse, p_dense) for T in tys]
    m = len(env['sizes'])
    # physical axis order: random permutation of the axes created
    perm = list(draw(st.permutations(list(range(m))))) if m > 1 else list(range(m))   # new index -> old index
    inv = {old: new for new, old in enumerate(perm)}
    def ren(P):
        if 'p' in P: return {'p': inv[P['p']]}
        if 'prod' in P: return {'prod': [ren(x) for x in P['prod']]}
        return {'sum': [P['sum'][0], ren(P['sum'][1]), P['sum'][2]]}
    vaxes = [ren(P) for P in vaxes]
    sizes = [env['sizes'][old] for old in perm]
    bcast = [d for d in range(m) if sizes[d] > 1 and draw(st.floats(0, 1)) < p_bcast]
    base = [1 if d in bcast else sizes[d] for d in range(m)]
    n = 1
    for s in base: n *= s
    if dtype == 'bool':
        phys = [draw(st.booleans()) for _ in range(n)]
        default = draw(st.booleans())
    else:
        phys = [draw(st.sampled_from(values)) for _ in range(n)]
        default = draw(st.sampled_from(defaults))
    return {'paxes': sizes, 'vaxes': vaxes, 'phys': phys, 'bcast': bcast, 'default': default, 'dtype': dtype}


# ------------------------------------------------------------------ O2: dense interpreter (from the module docstring)

def pat_numel(P, sizes):
    if 'p' in P: return sizes[P['p']]
    if 'prod' in P:
        n = 1
        for x in P['prod']: n *= pat_numel(x, sizes)
        return n
    return P['sum'][0] + pat_numel(P['sum'][1], sizes) + P['sum'][2]


def pat_index(P, idx, sizes):
    """Virtual index denoted by pattern P at physical multi-index idx."""
    if 'p' in P: return idx[P['p']]
    if 'prod' in P:
        v = 0
        for x in P['prod']:
            v = v * pat_numel(x, sizes) + pat_index(x, idx, sizes)
        return v
    return P['sum'][0] + pat_index(P['sum'][1], idx, sizes)


def free_axes(P, out=None):
    out = set() if out is None else out
    if 'p' in P: out.add(P['p'])
    elif 'prod' in P:
        for x in P['prod']: free_axes(x, out)
    else: free_axes(P['sum'][1], out)
    return out


def np_dtype(name):
    return {'float64': np.float64, 'float32': np.float32, 'bool': np.bool_, 'int64': np.int64}[name]


def phys_array(spec):
    sizes = spec['paxes']
    base = [1 if d in spec['bcast'] else sizes[d] for d in range(len(sizes))]
    a = np.array(spec['phys'], dtype=np_dtype(spec['dtype'])).reshape(base)
    return np.broadcast_to(a, sizes)


def virtual_shape(spec):
    return tuple(pat_numel(P, spec['paxes']) for P in spec['vaxes'])


def dense_of(spec):
    """The dense numpy array a tensor spec denotes (independent of fggs.indices)."""
    sizes = spec['paxes']
    shape = virtual_shape(spec)
    out = np.full(shape, spec['default'], dtype=np_dtype(spec['dtype']))
    ph = phys_array(spec)
    for idx in itertools.product(*[range(s) for s in sizes]):
        v = tuple(pat_index(P, idx, sizes) for P in spec['vaxes'])
        out[v] = ph[idx]
    return out


def support_mask(spec):
    shape = virtual_shape(spec)
    m = np.zeros(shape, dtype=bool)
    sizes = spec['paxes']
    for idx in itertools.product(*[range(s) for s in sizes]):
        m[tuple(pat_index(P, idx, sizes) for P in spec['vaxes'])] = True
    return m


def is_structured(spec):
    """non-dense pattern: some virtual axis is not a plain distinct physical axis."""
    seen = set()
    for P in spec['vaxes']:
        if 'p' in P and P['p'] not in seen:
            seen.add(P['p'])
        elif P == {'prod': []}:
            continue
        else:
            return True
    return False


# ------------------------------------------------------------------ build library objects

def torch_dtype(name):
    import torch
    return {'float64': torch.float64, 'float32': torch.float32, 'bool': torch.bool, 'int64': torch.int64}[name]


def build_axis(P, paxes):
    from fggs.indices import productAxis, SumAxis
    if 'p' in P: return paxes[P['p']]
    if 'prod' in P: return productAxis(build_axis(x, paxes) for x in P['prod'])
    return SumAxis(P['sum'][0], build_axis(P['sum'][1], paxes), P['sum'][2])


def build_pt(spec, reuse=None, out_paxes=None):
    """fggs.indices.PatternedTensor denoted by the spec (physical possibly a stride-0 expanded view).
    reuse: {physical axis position -> PhysicalAxis object of another tensor} (operands that share axes);
    out_paxes: list that receives the PhysicalAxis objects in spec order."""
    import torch
    from fggs.indices import PatternedTensor, PhysicalAxis
    sizes = spec['paxes']
    base = [1 if d in spec['bcast'] else sizes[d] for d in range(len(sizes))]
    t = torch.tensor(spec['phys'], dtype=torch_dtype(spec['dtype'])).reshape(base)
    # storage layout (a pure function of the spec, so replays and the hypothesis stream are unaffected): a third of the
    # tensors are views into a larger storage with a non-zero storage offset (a row of a parameter matrix, say), another
    # third additionally have non-standard strides.  The denoted tensor is the same; code that rebuilds views from
    # (size, stride) alone and forgets storage_offset() reads the junk in front (seeded change C09-9).
    import zlib
    layout = zlib.crc32(repr((sizes, sorted(spec['bcast']), len(spec['vaxes']))).encode()) % 3
    if t.numel() > 0 and layout != 2:
        junk = torch.full((3,), 1 if t.dtype == torch.bool else 77, dtype=t.dtype)
        if layout == 1 and t.dim() >= 2:
            tt = torch.cat([junk, t.transpose(0, t.dim() - 1).reshape(-1)])[3:].reshape(t.transpose(0, t.dim() - 1).shape)
            t = tt.transpose(0, t.dim() - 1)
        else:
            t = torch.cat([junk, t.reshape(-1)])[3:].reshape(base)
        assert t.storage_offset() == 3
    if spec['bcast']:
        t = t.expand(sizes)
    paxes = tuple((reuse or {}).get(i) or PhysicalAxis(n) for i, n in enumerate(sizes))
    assert all(k.numel() == n for k, n in zip(paxes, sizes))
    if out_paxes is not None: out_paxes.extend(paxes)
    vaxes = tuple(build_axis(P, paxes) for P in spec['vaxes'])
    return PatternedTensor(t, paxes, vaxes, spec['default'])


def dense_torch(spec):
    import torch
    d = dense_of(spec)
    return torch.from_numpy(np.array(d, copy=True)).reshape(d.shape)


# ------------------------------------------------------------------ representation invariant (C06)

def invariant_problems(pt):
    """Representation invariant of a PatternedTensor, through its public fields."""
    try:
        return _invariant_problems(pt)
    except Exception as e:
        return [f'invariant inspection raised {type(e).__name__}: {e}'[:300]]


def _invariant_problems(pt):
    from fggs.indices import PhysicalAxis
    probs = []
    ph = pt.physical
    paxes = list(pt.paxes)
    if tuple(ph.size()) != tuple(k.numel() for k in paxes):
        probs.append(f'physical size {tuple(ph.size())} != paxes sizes {tuple(k.numel() for k in paxes)}')
        return probs
    if any(k.numel() == 1 for k in paxes):
        probs.append('size-1 physical axis')
    if len({id(k) for k in paxes}) != len(paxes):
        probs.append('paxes not pairwise distinct')
    fv = set()
    for e in pt.vaxes:
        for k in e.fv({}): fv.add(id(k))
    if fv != {id(k) for k in paxes}:
        probs.append('free axes of vaxes differ from paxes')
        return probs
    n = 1
    for k in paxes: n *= k.numel()
    if 0 < n <= 4096:
        maps = [e.stride({}) for e in pt.vaxes]
        shape = [e.numel() for e in pt.vaxes]
        seen = set()
        for idx in itertools.product(*[range(k.numel()) for k in paxes]):
            v = []
            for (o, s), lim in zip(maps, shape):
                x = o + sum(c * idx[paxes.index(k)] for k, c in s.items())
                if not (0 <= x < lim):
                    probs.append(f'physical index {idx} maps outside the virtual range'); return probs
                v.append(x)
            v = tuple(v)
            if v in seen:
                probs.append(f'two physical elements back virtual element {v}'); return probs
            seen.add(v)
    return probs


def selfcheck():
    # the two examples of the module docstring
    s1 = {'paxes': [2, 3], 'vaxes': [{'prod': [{'p': 0}, {'p': 1}]}, {'p': 0}, {'p': 1}], 'phys': [1., 2., 3., 4., 5., 6.],
          'bcast': [], 'default': 0.0, 'dtype': 'float64'}
    d = dense_of(s1)
    assert d.shape == (6, 2, 3) and d[4, 1, 1] == 5. and d.sum() == 21. and d[3, 1, 0] == 4.
    s2 = {'paxes': [6], 'vaxes': [{'sum': [1, {'p': 0}, 0]}, {'p': 0}], 'phys': [1., 2., 3., 4., 5., 6.],
          'bcast': [], 'default': 0.0, 'dtype': 'float64'}
    d = dense_of(s2)
    assert d.shape == (7, 6) and d[1, 0] == 1. and d[6, 5] == 6. and d[0].sum() == 0
    # (agreement of the library's to_dense with this interpreter is asserted per generated input inside the
    # checks, as a violation, never here: the self-check must not depend on the code under test)
    s3 = {'paxes': [2], 'vaxes': [{'p': 0}, {'sum': [1, {'prod': [{'p': 0}, {'p': 0}]}, 0]}], 'phys': [5., 6.],
          'bcast': [], 'default': -1.0, 'dtype': 'float64'}
    d = dense_of(s3)
    assert d.shape == (2, 5) and d[0, 1] == 5. and d[1, 4] == 6. and (d == -1).sum() == 8
