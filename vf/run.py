"""Driver: ./check <ID> [--tier quick|thorough] [--replay FILE] [--shards N]"""
from __future__ import annotations
import argparse, importlib, json, os, shutil, subprocess, sys, time

from .core import (VERIF_DIR, REPO_DIR, Ctx, LibFailure, case_hash, dump_case, load_case,
                   open_findings_for, load_known_findings, _jsonable, _unjsonable)


def _worker_env(seed, shard):
    env = dict(os.environ)
    env['PYTHONHASHSEED'] = str((seed * 1000003 + shard) % (2**32))
    env['OMP_NUM_THREADS'] = '1'
    env['MKL_NUM_THREADS'] = '1'
    env['FGGS_VERIF'] = '1'
    env['PYTHONWARNINGS'] = 'ignore'
    return env


def run_one_case(prop, case):
    ctx = Ctx()
    try:
        prop.check(case, ctx)
    except LibFailure:
        pass
    return ctx


def replay(prop, prop_id, path):
    with open(path) as f:
        obj = json.load(f)
    case = _unjsonable(obj['case'] if isinstance(obj, dict) and 'case' in obj else obj)
    ctx = run_one_case(prop, case)
    openf = open_findings_for(prop_id)
    bad = [v for v in ctx.violations
           if not ((prop.route(case, v) if hasattr(prop, 'route') else None) in openf)]
    for v in ctx.violations:
        print(f'  violation kind={v.kind} msg={v.msg[:300]}')
    if bad:
        print(f'VIOLATION property={prop_id} replay={path}')
        return 1
    print(f'replay {path}: property held ({ctx.subchecks} sub-checks)')
    return 0


def known_finding_lines(prop, prop_id):
    """Re-run the canonical input of every listed open finding; report while it still fails."""
    lines, stale = [], []
    openf = open_findings_for(prop_id)
    canon = prop.canonical_cases() if hasattr(prop, 'canonical_cases') else {}
    for fid, entry in openf.items():
        case = canon.get(fid)
        if case is None:
            continue
        ctx = run_one_case(prop, case)
        hit = [v for v in ctx.violations if prop.route(case, v) == fid]
        if hit:
            lines.append(f"KNOWN-FINDING: property={prop_id} {fid}: {entry.get('what', '')}")
        else:
            stale.append(fid)
    return lines, stale


def main(argv=None):
    ap = argparse.ArgumentParser()
    ap.add_argument('prop')
    ap.add_argument('--tier', default=os.environ.get('VERIF_TIER', 'quick'), choices=['quick', 'thorough'])
    ap.add_argument('--replay')
    ap.add_argument('--shards', type=int, default=int(os.environ.get('VERIF_SHARDS', '16')))
    args = ap.parse_args(argv)
    prop_id = args.prop.upper()
    seed = int(os.environ.get('VERIF_SEED', '1') or '1')
    t0 = time.time()
    try:
        import warnings; warnings.simplefilter('ignore')
        prop = importlib.import_module(f'vf.props.{prop_id.lower()}')
    except Exception as e:
        import traceback; traceback.print_exc()
        print(f'HARNESS-ERROR property={prop_id} cannot import check: {e}')
        return 2
    if args.replay:
        return replay(prop, prop_id, args.replay)

    work = os.path.join(VERIF_DIR, 'evidence', '.work', f'{prop_id}-{os.getpid()}')
    shutil.rmtree(work, ignore_errors=True)
    os.makedirs(work, exist_ok=True)
    nshards = max(1, args.shards)
    procs = []
    for s in range(nshards):
        out = os.path.join(work, f'shard{s}.json')
        p = subprocess.Popen([sys.executable, '-m', 'vf.worker', prop_id, args.tier, str(seed),
                              str(s), str(nshards), out],
                             env=_worker_env(seed, s), cwd=VERIF_DIR,
                             stdout=subprocess.DEVNULL, stderr=open(os.path.join(work, f'shard{s}.err'), 'w'))
        procs.append((s, p, out))
    results, herr = [], None
    for s, p, out in procs:
        rc = p.wait()
        if os.path.exists(out):
            with open(out) as f:
                r = json.load(f)
            results.append(r)
            if r.get('harness_error'):
                herr = herr or f'shard {s}: {r["harness_error"]}'
        else:
            try:
                err = open(os.path.join(work, f'shard{s}.err')).read()[-3000:]
            except Exception:
                err = ''
            herr = herr or f'shard {s} died rc={rc}: {err}'
    if herr:
        print(herr, file=sys.stderr)
        print(f'HARNESS-ERROR property={prop_id} (not a violation)')
        shutil.rmtree(work, ignore_errors=True)
        return 2

    # merge
    evals = sum(r['evals'] for r in results)
    hashes = set()
    labels, excluded, skipped, samples = {}, {}, {}, []
    failure = None
    exh = [r['exhaustive_done'] for r in results if r.get('exhaustive_done') is not None]
    for r in results:
        hashes.update(r['hashes'])
        for k, v in r['labels'].items(): labels[k] = labels.get(k, 0) + v
        for k, v in r['excluded'].items(): excluded[k] = excluded.get(k, 0) + v
        for k, v in r['skipped'].items(): skipped[k] = skipped.get(k, 0) + v
        if len(samples) < 6: samples.extend(r['samples'][:2])
        if r['failure'] is not None and failure is None:
            failure = r['failure']
    samples = samples[:6]

    if os.environ.get('VERIF_SURVEY'):
        buckets = {}
        for r in results:
            for k, b in r.get('buckets', {}).items():
                bb = buckets.setdefault(k, {'n': 0, 'example': None, 'msg': b['msg']})
                bb['n'] += b['n']
                if bb['example'] is None or len(json.dumps(b['example'])) < len(json.dumps(bb['example'])):
                    bb['example'] = b['example']; bb['msg'] = b['msg']
        print(f'SURVEY {prop_id}: {evals} cases; buckets:')
        for k, b in sorted(buckets.items(), key=lambda kv: -kv[1]['n']):
            print(f"  {b['n']:6d}  {k}\n          {b['msg'][:250]}\n          e.g. {json.dumps(b['example'])[:900]}")
        with open(os.path.join(VERIF_DIR, f'survey-{prop_id}.json'), 'w') as f:
            json.dump(buckets, f, indent=1)
        shutil.rmtree(work, ignore_errors=True)
        return 0

    # known findings: canonical inputs re-run now
    kf_lines, stale = known_finding_lines(prop, prop_id)
    for l in kf_lines:
        print(l)

    rc = 0
    replay_path = None
    if failure is not None:
        os.makedirs(os.path.join(VERIF_DIR, 'replays'), exist_ok=True)
        h = case_hash(_unjsonable(failure['case']))
        replay_path = os.path.join('replays', f'{prop_id}-{h}.json')
        with open(os.path.join(VERIF_DIR, replay_path), 'w') as f:
            json.dump({'property': prop_id, 'seed': seed, 'tier': args.tier,
                       'violations': failure['violations'], 'case': failure['case']}, f, indent=1)
        for v in failure['violations'][:5]:
            print(f"  violation kind={v['kind']} msg={v['msg'][:400]}")
        print(f'VIOLATION property={prop_id} replay={replay_path}')
        rc = 1

    budget = prop.budget(args.tier)
    essential = getattr(prop, 'ESSENTIAL_LABELS', [])
    degraded = [l for l in essential if labels.get(l, 0) < 0.01 * max(1, evals)]
    if not samples:
        samples = ['(no non-trivial case recorded)']
    ev = {
        'property_id': prop_id, 'tier': args.tier, 'seed': seed, 'level': 'exploration',
        'coverage': {
            'evaluations': evals,
            'distinct_nontrivial': len(hashes) + sum(r.get('extra_nontrivial', 0) for r in results),
            'rule': prop.RULE,
            'samples': samples,
            'classes': dict(sorted(labels.items())),
            'subchecks': sum(r['subchecks'] for r in results),
            'excluded_known': excluded,
            'skipped': skipped,
            'exhaustive': bool(exh) and all(exh) and bool(getattr(prop, 'EXHAUSTIVE_ONLY', False)),
            'exhaustive_subspace': (prop.exhaustive_note(args.tier) if hasattr(prop, 'exhaustive_note') else None)
                                   if (exh and all(exh)) else None,
            'generator_health': 'degraded: ' + ','.join(degraded) if degraded else 'ok',
            'known_findings_reported': kf_lines,
            'stale_known_findings': stale,
            'shards': nshards,
            'engine': getattr(prop, 'ENGINE', 'hypothesis 6.168 @given, seeded per shard'),
            'repo': REPO_DIR,
        },
        'assumptions': list(getattr(prop, 'ASSUMPTIONS', [])),
        'wall_s': round(time.time() - t0, 2),
        'violations': 0 if failure is None else len(failure['violations']),
    }
    if replay_path:
        ev['coverage']['replay'] = replay_path
    os.makedirs(os.path.join(VERIF_DIR, 'evidence'), exist_ok=True)
    evdir = os.path.join(VERIF_DIR, 'evidence')
    if os.path.realpath(REPO_DIR) != '/repo':
        # sensitivity runs against a scratch copy must not overwrite the evidence of the real tree
        evdir = os.path.join(VERIF_DIR, 'evidence', '.scratch')
        os.makedirs(evdir, exist_ok=True)
    evp = os.path.join(evdir, f'{prop_id}.json')
    with open(evp + '.tmp', 'w') as f:
        json.dump(ev, f, indent=1)
    os.replace(evp + '.tmp', evp)
    shutil.rmtree(work, ignore_errors=True)
    try:
        os.rmdir(os.path.join(VERIF_DIR, 'evidence', '.work'))
    except OSError:
        pass
    print(f"{prop_id} {args.tier} seed={seed}: {evals} cases, {ev['coverage']['distinct_nontrivial']} distinct non-trivial, "
          f'excluded_known={sum(excluded.values())}, violations={ev["violations"]}, {ev["wall_s"]}s')
    return rc


if __name__ == '__main__':
    sys.exit(main())
