"""One shard of one property check.  python -m vf.worker <ID> <tier> <seed> <shard> <nshards> <outfile>"""
from __future__ import annotations
import importlib, json, os, sys, time, traceback, warnings

from .core import (Ctx, LibFailure, HarnessError, case_hash, dump_case, derive_seed,
                   open_findings_for, _jsonable)


class ViolationFound(Exception):
    """An unlisted violation was found in the current case (drives Hypothesis' shrinking)."""


class Stats:
    def __init__(self, prop, open_findings):
        self.prop = prop
        self.open = open_findings
        self.evals = 0
        self.extra_nontrivial = 0
        self.subchecks = 0
        self.hashes = set()
        self.labels = {}
        self.samples = []
        self.excluded = {}
        self.skipped = {}
        self.failure = None         # (case, [violation json])
        self.fail_calls = 0
        self.stop_shrinking = False
        self.shrink_limit = 400
        self.shrink_seconds = 90
        self.first_fail_time = None
        self.survey = bool(os.environ.get('VERIF_SURVEY'))
        self.buckets = {}

    def run_case(self, case, exhaustive=False):
        """Run one case. Raises ViolationFound on an unlisted violation."""
        if self.first_fail_time is not None and time.time() - self.first_fail_time > self.shrink_seconds:
            self.stop_shrinking = True
        if self.stop_shrinking:
            return
        ctx = Ctx()
        self.evals += 1
        try:
            self.prop.check(case, ctx)
        except LibFailure:
            pass
        self.subchecks += ctx.subchecks
        self.evals += ctx.extra_evals
        for k, n in ctx.skipped.items():
            self.skipped[k] = self.skipped.get(k, 0) + n
        unknown = []
        for v in ctx.violations:
            fid = self.prop.route(case, v) if hasattr(self.prop, 'route') else None
            if fid is not None and fid in self.open:
                self.excluded[fid] = self.excluded.get(fid, 0) + 1
            else:
                unknown.append(v)
        if unknown and self.survey:
            for v in unknown:
                b = self.buckets.setdefault(v.kind, {'n': 0, 'example': None, 'msg': v.msg[:300]})
                b['n'] += 1
                if b['example'] is None or len(dump_case(case)) < len(dump_case(b['example'])):
                    b['example'] = case; b['msg'] = v.msg[:300]
            unknown = []
        if unknown:
            sub = unknown[0].detail.pop('subcase', None)
            self.failure = (sub if sub is not None else case, [v.to_json() for v in unknown])
            self.fail_calls += 1
            if self.first_fail_time is None:
                self.first_fail_time = time.time()
            # the shrink phase is bounded (calls and seconds): this only limits how small the replay gets
            if self.fail_calls > self.shrink_limit or time.time() - self.first_fail_time > self.shrink_seconds:
                self.stop_shrinking = True
            raise ViolationFound(unknown[0].kind + ': ' + unknown[0].msg)
        if self.failure is not None:
            return  # shrinking phase: do not pollute statistics
        for l in ctx.labels:
            self.labels[l] = self.labels.get(l, 0) + 1
        self.extra_nontrivial += ctx.extra_nontrivial
        if ctx.nontrivial:
            h = case_hash(case)
            if h not in self.hashes:
                self.hashes.add(h)
                if len(self.samples) < 3:
                    self.samples.append(_jsonable(case))


def run_shard(prop_id, tier, seed, shard, nshards, outfile):
    t0 = time.time()
    out = {'shard': shard, 'harness_error': None}
    try:
        warnings.simplefilter('ignore')
        import torch
        torch.set_num_threads(1)
        prop = importlib.import_module(f'vf.props.{prop_id.lower()}')
        stats = Stats(prop, open_findings_for(prop_id))
        if shard == 0 and hasattr(prop, 'selfcheck'):
            prop.selfcheck()
        exhaustive_done = None
        # 1. enumerated sub-space
        if hasattr(prop, 'enumerate_cases'):
            it = prop.enumerate_cases(tier, shard, nshards)
            if it is not None:
                exhaustive_done = True
                try:
                    for case in it:
                        stats.run_case(case, exhaustive=True)
                except ViolationFound:
                    exhaustive_done = False
        # 2. generated part
        budget = prop.budget(tier)
        n = max(1, budget.get('examples', 0) // nshards) if budget.get('examples', 0) else 0
        if n and stats.failure is None and getattr(prop, 'strategy', None) is not None:
            import hypothesis
            from hypothesis import given, settings, HealthCheck, Phase
            strat = prop.strategy(tier)
            phases = [Phase.generate, Phase.shrink] if budget.get('shrink', True) else [Phase.generate]
            stats.shrink_limit = budget.get('shrink_calls', 400)
            stats.shrink_seconds = budget.get('shrink_seconds', 90 if tier == 'quick' else 300)

            @hypothesis.seed(derive_seed(seed, shard))
            @settings(max_examples=n, database=None, deadline=None, derandomize=False,
                      report_multiple_bugs=False, suppress_health_check=list(HealthCheck),
                      phases=phases, print_blob=False)
            @given(strat)
            def test(case):
                stats.run_case(case)

            try:
                test()
            except ViolationFound:
                pass
            except BaseException as e:
                # anything else (incl. AssertionError from harness self-checks) is a harness error unless a violation
                # was already recorded and Hypothesis merely complains about our shrink cut-off (Flaky etc.)
                if stats.failure is None or isinstance(e, (AssertionError, HarnessError)):
                    raise
                # Flaky etc. raised by hypothesis after our shrink cut-off: the stored failure stands.
        out.update({
            'evals': stats.evals, 'subchecks': stats.subchecks,
            'hashes': sorted(stats.hashes), 'extra_nontrivial': stats.extra_nontrivial, 'labels': stats.labels, 'samples': stats.samples,
            'excluded': stats.excluded, 'skipped': stats.skipped,
            'failure': None if stats.failure is None else
                       {'case': _jsonable(stats.failure[0]), 'violations': stats.failure[1]},
            'exhaustive_done': exhaustive_done,
            'buckets': {k: {'n': b['n'], 'msg': b['msg'], 'example': _jsonable(b['example'])} for k, b in stats.buckets.items()},
        })
    except BaseException as e:
        out['harness_error'] = ''.join(traceback.format_exception(type(e), e, e.__traceback__))[-6000:]
    out['wall_s'] = time.time() - t0
    tmp = outfile + '.tmp'
    with open(tmp, 'w') as f:
        json.dump(out, f)
    os.replace(tmp, outfile)
    return 2 if out['harness_error'] else 0


if __name__ == '__main__':
    pid, tier, seed, shard, nshards, outfile = sys.argv[1:7]
    rc = run_shard(pid, tier, int(seed), int(shard), int(nshards), outfile)
    sys.stdout.flush(); sys.stderr.flush()
    os._exit(rc)
