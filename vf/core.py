"""Shared machinery: violations, the per-case context, case hashing, known findings."""
from __future__ import annotations
import hashlib, json, math, os, sys, traceback, warnings
from typing import Any, Callable, Dict, List, Optional

VERIF_DIR = os.path.dirname(os.path.dirname(os.path.abspath(__file__)))
REPO_DIR = os.environ.get('VERIF_REPO', '/repo')


class LibFailure(Exception):
    """A library call raised where the property says it must succeed.
    Already recorded in the Ctx as a violation; aborts the current sub-check."""


class HarnessError(Exception):
    """Something is wrong with the harness itself (never a violation)."""


def _jsonable(x):
    """Make a case (possibly containing inf/nan/tuples) canonical for hashing/saving."""
    if isinstance(x, float):
        if math.isnan(x): return {'__f__': 'nan'}
        if math.isinf(x): return {'__f__': 'inf' if x > 0 else '-inf'}
        return x
    if isinstance(x, (list, tuple)):
        return [_jsonable(y) for y in x]
    if isinstance(x, dict):
        return {str(k): _jsonable(v) for k, v in x.items()}
    return x


def _unjsonable(x):
    if isinstance(x, dict):
        if set(x.keys()) == {'__f__'}:
            return float(x['__f__'])
        return {k: _unjsonable(v) for k, v in x.items()}
    if isinstance(x, list):
        return [_unjsonable(y) for y in x]
    return x


def dump_case(case) -> str:
    return json.dumps(_jsonable(case), sort_keys=True)


def load_case(s: str):
    return _unjsonable(json.loads(s))


def case_hash(case) -> str:
    return hashlib.sha1(dump_case(case).encode()).hexdigest()[:16]


def innermost_lib_frame(tb) -> str:
    """'<file>:<function>' of the innermost frame that lies in the fggs package."""
    found = '?'
    for fs in traceback.extract_tb(tb):
        fn = fs.filename.replace('\\', '/')
        if '/fggs/' in fn and '/vf/' not in fn:
            found = f"{os.path.basename(fn)}:{fs.name}"
    return found


class Violation:
    def __init__(self, kind: str, msg: str, detail: Optional[dict] = None):
        self.kind = kind          # short, stable: used for routing to known findings
        self.msg = msg
        self.detail = detail or {}

    def to_json(self):
        return {'kind': self.kind, 'msg': self.msg[:2000], 'detail': _jsonable(self.detail)}


class Ctx:
    """Collects what one case did: violations, labels, non-triviality."""

    def __init__(self):
        self.violations: List[Violation] = []
        self.labels: set = set()
        self.nontrivial = False
        self.subchecks = 0
        self.skipped: Dict[str, int] = {}
        self.extra_evals = 0        # block cases: sub-cases executed inside this case
        self.extra_nontrivial = 0   # block cases: distinct (by construction) non-trivial sub-cases

    def label(self, *labels):
        for l in labels:
            if l: self.labels.add(str(l))

    def skip(self, why: str):
        self.skipped[why] = self.skipped.get(why, 0) + 1

    def violation(self, kind: str, msg: str = '', **detail):
        self.violations.append(Violation(kind, msg, detail))

    def require(self, cond, kind: str, msg: str = '', **detail) -> bool:
        self.subchecks += 1
        if not cond:
            self.violation(kind, msg, **detail)
        return bool(cond)

    def call(self, what: str, fn: Callable, *a, **k):
        """Call into the library; an exception is a violation of kind
        'exc:<what>:<Type>@<innermost fggs frame>'."""
        try:
            return fn(*a, **k)
        except (KeyboardInterrupt, SystemExit, MemoryError):
            raise
        except BaseException as e:
            frame = innermost_lib_frame(e.__traceback__)
            self.violation(f'exc:{what}:{type(e).__name__}@{frame}',
                           f'{type(e).__name__}: {e}'[:500], what=what,
                           exc=type(e).__name__, frame=frame)
            raise LibFailure(what) from e

    def expect_raises(self, what: str, exc_types, fn: Callable, *a, **k) -> bool:
        """The property says this call must be rejected with one of exc_types."""
        self.subchecks += 1
        try:
            fn(*a, **k)
        except exc_types:
            return True
        except (KeyboardInterrupt, SystemExit, MemoryError):
            raise
        except BaseException as e:
            frame = innermost_lib_frame(e.__traceback__)
            self.violation(f'wrongexc:{what}:{type(e).__name__}@{frame}',
                           f'expected {exc_types}, got {type(e).__name__}: {e}'[:500])
            return False
        self.violation(f'noexc:{what}', f'expected {exc_types}, call succeeded')
        return False


# ---------------------------------------------------------------- known findings

def load_known_findings() -> dict:
    p = os.path.join(VERIF_DIR, 'known_findings.json')
    if not os.path.exists(p):
        return {'open': [], 'fixed': []}
    with open(p) as f:
        return json.load(f)


def open_findings_for(prop_id: str) -> Dict[str, dict]:
    kf = load_known_findings()
    return {e['finding']: e for e in kf.get('open', []) if prop_id in e.get('properties', [])}


# ---------------------------------------------------------------- misc helpers

def quiet_warnings():
    warnings.simplefilter('ignore')


def derive_seed(seed: int, shard: int, salt: int = 0) -> int:
    h = hashlib.sha256(f'{seed}:{shard}:{salt}'.encode()).digest()
    return int.from_bytes(h[:8], 'big') & ((1 << 63) - 1)
