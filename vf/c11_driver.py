"""Runs a batch of grammar specs through the library and prints the results as JSON.
Used by C11 to execute the *same* work under `python`, `python -O` and `python -OO`.
  python [-O|-OO] -m vf.c11_driver batch.json out.json
"""
import json, sys, warnings


def run_batch(batch):
    import torch, fggs
    from vf import gen_fgg
    from vf.core import _unjsonable, _jsonable
    out = []
    for item in batch:
        spec = _unjsonable(item['spec'])
        res = {}
        for kind, method, jp, dt in item['configs']:
            key = f'{kind}/{method}/{jp}/{dt}'
            try:
                dtype = getattr(torch, dt)
                fgg, info = gen_fgg.build(spec, kind, dtype)
                if kind in ('real', 'log'):
                    for f in fgg.factors.values():
                        f.weights.requires_grad_()
                with warnings.catch_warnings():
                    warnings.simplefilter('ignore')
                    z = fggs.sum_product(fgg, method=method, semiring=gen_fgg.make_semiring(kind, dtype), j_precompute=jp,
                                         tol=item.get('tol', 1e-10), kmax=item.get('kmax', 2000)).to_dense()
                r = {'z': z.detach().to(torch.float64).reshape(-1).tolist() if z.dtype != torch.bool else z.reshape(-1).tolist()}
                if kind in ('real', 'log') and z.requires_grad:
                    zz = z if kind == 'real' else z[z > -float('inf')]
                    zz.sum().backward()
                    r['grads'] = {n: (None if f.weights.grad is None else
                                      f.weights.grad.to_dense().to(torch.float64).reshape(-1).tolist())
                                  for n, f in fgg.factors.items()}
                res[key] = r
            except BaseException as e:
                res[key] = {'error': type(e).__name__ + ': ' + str(e)[:200]}
        out.append(res)
    return out


if __name__ == '__main__':
    from vf.core import _jsonable
    with open(sys.argv[1]) as f:
        batch = json.load(f)
    out = run_batch(batch)
    with open(sys.argv[2], 'w') as f:
        json.dump({'debug': __debug__, 'results': _jsonable(out)}, f)
