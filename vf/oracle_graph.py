"""O4: exact treewidth, elimination width, tree-decomposition validity. No fggs code."""
from __future__ import annotations
from functools import lru_cache


def adj_masks(n, edges):
    adj = [0] * n
    for u, v in edges:
        if u != v:
            adj[u] |= 1 << v
            adj[v] |= 1 << u
    return adj


def treewidth(n, adj):
    """Exact treewidth by DP over eliminated subsets (Bodlaender et al.): O(2^n * n * n)."""
    if n == 0:
        return -1   # convention-free: caller must not compare widths for the empty graph
    full = (1 << n) - 1

    def q(S, v):
        # number of vertices outside S+{v} adjacent to the connected component of v in G[S+{v}]
        comp = 1 << v
        frontier = 1 << v
        while frontier:
            nxt = 0
            f = frontier
            while f:
                b = f & -f
                f ^= b
                nxt |= adj[b.bit_length() - 1]
            nxt &= S & ~comp
            comp |= nxt
            frontier = nxt
        nb = 0
        c = comp
        while c:
            b = c & -c
            c ^= b
            nb |= adj[b.bit_length() - 1]
        nb &= ~comp & ~S
        return bin(nb).count('1')

    TW = {0: -1}
    # process subsets by increasing popcount
    subsets = sorted(range(1, full + 1), key=lambda s: bin(s).count('1'))
    for S in subsets:
        best = n
        s = S
        while s:
            b = s & -s
            s ^= b
            v = b.bit_length() - 1
            rest = S ^ b
            cand = max(TW[rest], q(rest, v))
            if cand < best:
                best = cand
        TW[S] = best
    return max(TW[full], 0)


def elimination_width(n, adj, order):
    """Max degree at elimination time for the given order (a permutation of 0..n-1)."""
    adj = list(adj)
    alive = (1 << n) - 1
    w = 0
    for v in order:
        nb = adj[v] & alive & ~(1 << v)
        w = max(w, bin(nb).count('1'))
        x = nb
        while x:
            b = x & -x
            x ^= b
            u = b.bit_length() - 1
            adj[u] |= nb & ~b
        alive &= ~(1 << v)
    return w


def td_problems(vertices, edges, tree):
    """Validity of a tree decomposition given as {bag(frozenset): set(of neighbouring bags)}.
    Returns a list of problem strings (empty = valid)."""
    probs = []
    if not isinstance(tree, dict) or len(tree) == 0:
        return ['no bags']
    bags = list(tree.keys())
    for b in bags:
        if not isinstance(b, frozenset):
            probs.append(f'bag {b!r} is not a frozenset')
    if probs: return probs
    vs = set(vertices)
    # tree structure: symmetric, no self loops, neighbours are bags, connected, |E| = |V|-1
    ecount = 0
    for b in bags:
        for c in tree[b]:
            if c not in tree:
                probs.append('neighbour bag is not a bag of the tree'); return probs
            if c == b:
                probs.append('bag adjacent to itself')
            if b not in tree[c]:
                probs.append('bag adjacency not symmetric')
            ecount += 1
    if probs: return probs
    ecount //= 2
    seen = {bags[0]}
    stack = [bags[0]]
    while stack:
        b = stack.pop()
        for c in tree[b]:
            if c not in seen:
                seen.add(c); stack.append(c)
    if len(seen) != len(bags):
        probs.append(f'bag graph not connected ({len(seen)} of {len(bags)} reachable)')
    if ecount != len(bags) - 1:
        probs.append(f'bag graph is not a tree: {len(bags)} bags, {ecount} edges')
    for b in bags:
        if not b <= vs:
            probs.append(f'bag {set(b)} contains a non-vertex')
    for v in vs:
        if not any(v in b for b in bags):
            probs.append(f'vertex {v} in no bag')
    for u, v in edges:
        if u != v and not any(u in b and v in b for b in bags):
            probs.append(f'edge {u}-{v} in no bag')
    if probs: return probs
    for v in vs:
        holding = [b for b in bags if v in b]
        seen = {holding[0]}
        stack = [holding[0]]
        while stack:
            b = stack.pop()
            for c in tree[b]:
                if v in c and c not in seen:
                    seen.add(c); stack.append(c)
        if len(seen) != len(holding):
            probs.append(f'bags containing vertex {v} are not connected')
    return probs


def td_width(tree):
    return max(len(b) for b in tree) - 1


def selfcheck():
    # known treewidths: path 1, cycle 2, K4 3, 3x3 grid 3, tree 1, empty-edge graph 0
    def tw(n, e): return treewidth(n, adj_masks(n, e))
    assert tw(4, [(0, 1), (1, 2), (2, 3)]) == 1
    assert tw(5, [(0, 1), (1, 2), (2, 3), (3, 4), (4, 0)]) == 2
    assert tw(4, [(a, b) for a in range(4) for b in range(a)]) == 3
    grid = [(3 * r + c, 3 * r + c + 1) for r in range(3) for c in range(2)] + \
           [(3 * r + c, 3 * r + c + 3) for r in range(2) for c in range(3)]
    assert tw(9, grid) == 3
    assert tw(3, []) == 0
    assert tw(6, [(0, 3), (0, 4), (0, 5), (1, 3), (1, 4), (1, 5), (2, 3), (2, 4), (2, 5)]) == 3  # K33
    assert elimination_width(4, adj_masks(4, [(0, 1), (1, 2), (2, 3)]), [0, 1, 2, 3]) == 1
    assert elimination_width(4, adj_masks(4, [(0, 1), (1, 2), (2, 3)]), [1, 2, 0, 3]) == 2
    good = {frozenset({0, 1}): {frozenset({1, 2})}, frozenset({1, 2}): {frozenset({0, 1})}}
    assert td_problems([0, 1, 2], [(0, 1), (1, 2)], good) == []
    assert td_problems([0, 1, 2, 3], [(0, 1), (1, 2)], good) != []
