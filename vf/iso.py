"""Small brute-force hypergraph isomorphism on plain descriptions (label- and degree-pruned).
A graph description: {'nodes': [label...], 'edges': [(label, (node idx...))...], 'ext': [node idx...]}."""
from __future__ import annotations
import itertools
from collections import Counter


def describe(graph):
    """fggs.Graph -> plain description (node order = graph.nodes() order)."""
    nodes = list(graph.nodes())
    pos = {}
    for i, v in enumerate(nodes):
        pos[id(v)] = i
    def idx(v):
        for i, u in enumerate(nodes):
            if u is v or u == v:
                return i
        raise KeyError(f'node {v} not among graph.nodes()')
    return {'nodes': [v.label.name for v in nodes],
            'edges': [(e.label.name, tuple(idx(v) for v in e.nodes)) for e in graph.edges()],
            'ext': [idx(v) for v in graph.ext]}


def isomorphic(g1, g2, limit=200000):
    """True/False; None if the search limit is exceeded."""
    n = len(g1['nodes'])
    if n != len(g2['nodes']) or len(g1['edges']) != len(g2['edges']) or len(g1['ext']) != len(g2['ext']):
        return False
    if Counter(g1['nodes']) != Counter(g2['nodes']):
        return False
    if Counter(l for l, _ in g1['edges']) != Counter(l for l, _ in g2['edges']):
        return False
    def sig(g, i):
        return (g['nodes'][i], tuple(sorted((l, k) for l, att in g['edges'] for k, a in enumerate(att) if a == i)),
                tuple(k for k, a in enumerate(g['ext']) if a == i))
    s1 = [sig(g1, i) for i in range(n)]
    s2 = [sig(g2, i) for i in range(n)]
    if Counter(s1) != Counter(s2):
        return False
    cands = [[j for j in range(n) if s2[j] == s1[i]] for i in range(n)]
    e2 = Counter((l, att) for l, att in g2['edges'])
    count = [0]

    def rec(i, mapping, used):
        count[0] += 1
        if count[0] > limit:
            return None
        if i == n:
            m = Counter((l, tuple(mapping[a] for a in att)) for l, att in g1['edges'])
            return m == e2 and [mapping[a] for a in g1['ext']] == list(g2['ext'])
        for j in cands[i]:
            if j in used: continue
            mapping[i] = j; used.add(j)
            r = rec(i + 1, mapping, used)
            used.discard(j)
            if r is None or r: return r
        return False
    return rec(0, {}, set())
