"""O1 / O6: reference semantics of a grammar spec.  Shares no code with fggs.

NumEval   numpy evaluator, generic over Real / MaxPlus (Viterbi) / Bool, with 0*inf = 0.
          One application of the grammar equations enumerates all assignments to all rhs nodes.
TorchEval float64 torch evaluator of the Real equations (differentiable): Newton least fixed point,
          Jacobian, a-posteriori contraction factor, gradients.
derivations / brute force: explicit derivation trees expanded into one flat factor graph and summed by
          brute force (cross-check of the evaluators themselves).
"""
from __future__ import annotations
import itertools, math
import numpy as np

INF = float('inf')


# ------------------------------------------------------------------ semiring records (numpy, elementwise)

class RealOps:
    name = 'real'
    zero = 0.0
    one = 0.0 + 1.0
    dtype = np.float64
    @staticmethod
    def conv(w): return np.asarray(w, dtype=np.float64)
    @staticmethod
    def mul(a, b):
        with np.errstate(invalid='ignore', over='ignore'):
            r = a * b
        return np.where((a == 0) | (b == 0), 0.0, r)
    @staticmethod
    def sum(a, axes):
        return a.sum(axis=axes) if axes else a
    @staticmethod
    def add(a, b): return a + b


class MaxPlusOps:
    name = 'viterbi'
    zero = -INF
    one = 0.0
    dtype = np.float64
    @staticmethod
    def conv(w):
        with np.errstate(divide='ignore'):
            return np.log(np.asarray(w, dtype=np.float64))
    @staticmethod
    def mul(a, b):
        with np.errstate(invalid='ignore'):
            r = a + b
        return np.where((a == -INF) | (b == -INF), -INF, r)
    @staticmethod
    def sum(a, axes):
        return a.max(axis=axes) if axes else a
    @staticmethod
    def add(a, b): return np.maximum(a, b)


class BoolOps:
    name = 'bool'
    zero = False
    one = True
    dtype = np.bool_
    @staticmethod
    def conv(w): return np.asarray(w, dtype=np.float64) > 0
    @staticmethod
    def mul(a, b): return a & b
    @staticmethod
    def sum(a, axes): return a.any(axis=axes) if axes else a
    @staticmethod
    def add(a, b): return a | b


OPS = {'real': RealOps, 'viterbi': MaxPlusOps, 'bool': BoolOps}


class NumEval:
    def __init__(self, spec, ops, raw_weights=None):
        self.spec = spec
        self.ops = ops
        self.sizes = spec['node_labels']
        self.w = {n: (raw_weights[n] if raw_weights is not None else ops.conv(t['weights']))
                  for n, t in spec['terminals'].items()}
        self.nts = list(spec['nonterminals'])
        self.shape = {x: tuple(self.sizes[nl] for nl in spec['nonterminals'][x]) for x in self.nts}

    def zeros(self):
        return {x: np.full(self.shape[x], self.ops.zero, dtype=self.ops.dtype) for x in self.nts}

    def rule_value(self, r, x):
        """Value of one rule as a tensor over its external nodes, given nonterminal values x."""
        ops = self.ops
        shape = tuple(self.sizes[nl] for nl in r['nodes'])
        k = len(shape)
        acc = np.full(shape, ops.one, dtype=ops.dtype)
        if k:
            grids = np.indices(shape, sparse=False) if all(s > 0 for s in shape) else None
        for e in r['edges']:
            t = self.w[e['label']] if e['label'] in self.w else x[e['label']]
            if not e['att']:
                val = np.full(shape, t, dtype=ops.dtype) if k else np.asarray(t, dtype=ops.dtype)
            elif grids is None:
                val = np.full(shape, ops.zero, dtype=ops.dtype)
            else:
                val = np.asarray(t)[tuple(grids[a] for a in e['att'])]
            acc = ops.mul(acc, val)
        ext = r['ext']
        internal = tuple(i for i in range(k) if i not in ext)
        if any(shape[i] == 0 for i in internal):
            out = np.full(tuple(shape[i] for i in sorted(ext)), ops.zero, dtype=ops.dtype)
        else:
            out = ops.sum(acc, internal) if internal else acc
        # axes of out are the external positions in increasing order; reorder to ext order
        srt = sorted(ext)
        perm = [srt.index(p) for p in ext]
        return np.transpose(out, perm) if len(perm) > 1 else out

    def apply(self, x):
        out = self.zeros()
        for r in self.spec['rules']:
            out[r['lhs']] = self.ops.add(out[r['lhs']], self.rule_value(r, x))
        return out

    def nonrecursive(self):
        """Exact values of all nonterminals of a non-recursive spec: |NT|+1 applications."""
        x = self.zeros()
        for _ in range(len(self.nts) + 1):
            x = self.apply(x)
        return x

    def kleene(self, max_rounds, equal=None):
        """Kleene iteration from zero until stationary; returns (x, rounds or None if not stationary)."""
        x = self.zeros()
        for k in range(max_rounds):
            y = self.apply(x)
            same = all((np.array_equal(x[n], y[n]) if equal is None else equal(x[n], y[n])) for n in self.nts)
            x = y
            if same:
                return x, k
        return x, None


# ------------------------------------------------------------------ torch evaluator (Real, differentiable)

class TorchEval:
    def __init__(self, spec, weights=None):
        import torch
        self.torch = torch
        self.spec = spec
        self.sizes = spec['node_labels']
        self.nts = list(spec['nonterminals'])
        self.shape = {x: tuple(self.sizes[nl] for nl in spec['nonterminals'][x]) for x in self.nts}
        self.w = weights if weights is not None else \
            {n: torch.tensor(t['weights'], dtype=torch.float64) for n, t in spec['terminals'].items()}
        self.numel = {x: int(np.prod(self.shape[x])) if self.shape[x] else 1 for x in self.nts}
        self.offsets = {}
        o = 0
        for x in self.nts:
            self.offsets[x] = o; o += self.numel[x]
        self.n = o
        self._grids = {}

    def unpack(self, vec):
        return {x: vec[self.offsets[x]:self.offsets[x] + self.numel[x]].reshape(self.shape[x]) for x in self.nts}

    def pack(self, d):
        torch = self.torch
        return torch.cat([d[x].reshape(-1) for x in self.nts]) if self.nts else torch.zeros(0, dtype=torch.float64)

    def rule_value(self, ri, r, x, w):
        torch = self.torch
        shape = tuple(self.sizes[nl] for nl in r['nodes'])
        k = len(shape)
        if ri not in self._grids:
            self._grids[ri] = torch.meshgrid(*[torch.arange(s) for s in shape], indexing='ij') if k else ()
        grids = self._grids[ri]
        acc = torch.ones(shape, dtype=torch.float64)
        for e in r['edges']:
            t = w[e['label']] if e['label'] in w else x[e['label']]
            if not e['att']:
                val = t
            else:
                val = t[tuple(grids[a] for a in e['att'])]
            acc = acc * val
        ext = r['ext']
        internal = [i for i in range(k) if i not in ext]
        out = acc.sum(dim=internal) if internal else acc
        srt = sorted(ext)
        perm = [srt.index(p) for p in ext]
        return out.permute(perm) if len(perm) > 1 else out

    def F(self, vec, w=None):
        torch = self.torch
        w = self.w if w is None else w
        x = self.unpack(vec)
        out = {n: torch.zeros(self.shape[n], dtype=torch.float64) for n in self.nts}
        for ri, r in enumerate(self.spec['rules']):
            out[r['lhs']] = out[r['lhs']] + self.rule_value(ri, r, x, w)
        return self.pack(out)

    def jacobian(self, vec):
        torch = self.torch
        if self.n == 0:
            return torch.zeros(0, 0, dtype=torch.float64)
        return torch.autograd.functional.jacobian(lambda v: self.F(v), vec)

    def least_fixed_point(self, max_newton=80, kleene_polish=3):
        """Newton from 0 (monotone, converges to the least fixed point when it is finite and rho<1),
        verified a posteriori.  Returns dict(ok, x, rho, residual, reason)."""
        torch = self.torch
        v = torch.zeros(self.n, dtype=torch.float64)
        I = torch.eye(self.n, dtype=torch.float64)
        # exact support of the least fixed point: an entry is non-zero iff it is derivable in the Boolean semiring
        # (weights are non-negative); linear-algebra round-off must not turn an exact zero into 1e-18
        support = None
        try:
            raw = {n: (np.asarray(t.detach().numpy()) > 0) for n, t in self.w.items()}
            be = NumEval(self.spec, BoolOps, raw_weights=raw)
            cells = sum(max(1, int(np.prod(be.shape[x]))) for x in be.nts)
            bx, rounds = be.kleene(cells + 3)
            if rounds is not None:
                support = torch.cat([torch.as_tensor(np.asarray(bx[x]).reshape(-1)) for x in self.nts]) if self.nts else None
        except Exception:
            support = None
        for it in range(max_newton):
            Fv = self.F(v)
            d = Fv - v
            if not torch.isfinite(Fv).all():
                return {'ok': False, 'reason': 'non-finite iterate'}
            if d.abs().max() <= 1e-16 * max(1.0, float(v.abs().max())):
                break
            J = self.jacobian(v)
            try:
                step = torch.linalg.solve(I - J, d)
            except Exception:
                return {'ok': False, 'reason': 'singular I-J (rho>=1)'}
            if not torch.isfinite(step).all() or (step < -1e-12 * max(1.0, float(v.abs().max()))).any():
                return {'ok': False, 'reason': 'newton step negative/non-finite (divergent or rho>=1)'}
            v = torch.maximum(v + step.clamp_min(0), Fv)
            if support is not None:
                v = torch.where(support, v, torch.zeros_like(v))
            if float(v.max()) > 1e12:
                return {'ok': False, 'reason': 'diverging'}
        for _ in range(kleene_polish):
            v = self.F(v)
        res = float((self.F(v) - v).abs().max()) if self.n else 0.0
        scale = max(1.0, float(v.abs().max())) if self.n else 1.0
        if not res <= 1e-12 * scale:
            return {'ok': False, 'reason': f'residual {res}'}
        J = self.jacobian(v)
        rho = float(J.abs().sum(dim=1).max()) if self.n else 0.0
        # spectral radius proper (inf-norm can exceed 1 although rho<1): also report it
        try:
            sr = float(torch.linalg.eigvals(J).abs().max()) if self.n else 0.0
        except Exception:
            sr = rho
        return {'ok': True, 'x': self.unpack(v), 'vec': v, 'rho_inf': rho, 'spectral_radius': sr, 'residual': res, 'J': J}

    def gradients(self, vec_star, J, cot_start, start, leaves):
        """d <cot, Z_start> / d w for every terminal weight tensor in `leaves` (dict name->tensor requiring grad),
        by implicit differentiation done independently: solve (I-J)^T g = c, then autograd of g.F wrt weights."""
        torch = self.torch
        c = torch.zeros(self.n, dtype=torch.float64)
        c[self.offsets[start]:self.offsets[start] + self.numel[start]] = cot_start.reshape(-1)
        I = torch.eye(self.n, dtype=torch.float64)
        g = torch.linalg.solve((I - J).T, c)
        w = {n: t.clone().requires_grad_(True) for n, t in self.w.items()}
        val = (self.F(vec_star.detach(), w) * g).sum()
        names = [n for n in leaves if n in w]
        if not val.requires_grad or not names:
            return {n: torch.zeros_like(w[n]) for n in names}
        grads = torch.autograd.grad(val, [w[n] for n in names], allow_unused=True)
        return {n: (gr if gr is not None else torch.zeros_like(w[n])) for n, gr in zip(names, grads)}


# ------------------------------------------------------------------ O6: derivations, brute force

def derivation_trees(spec, nt, depth):
    """All derivation trees for nonterminal nt of depth <= depth. A tree is (rule_index, [child trees in the
    order of the rule's nonterminal edges])."""
    if depth == 0:
        return []
    out = []
    for ri, r in enumerate(spec['rules']):
        if r['lhs'] != nt: continue
        nt_edges = [e for e in r['edges'] if e['label'] in spec['nonterminals']]
        options = [derivation_trees(spec, e['label'], depth - 1) for e in nt_edges]
        if any(len(o) == 0 for o in options):
            continue
        for combo in itertools.product(*options):
            out.append((ri, list(combo)))
    return out


def expand(spec, tree, path=()):
    """Flat factor graph of a derivation: (nodes: {name: label}, factors: [(terminal, [node names])],
    ext: [node names]).  Nodes are named by provenance (path, position)."""
    ri, children = tree
    r = spec['rules'][ri]
    names = [(path, j) for j in range(len(r['nodes']))]
    nodes = {names[j]: r['nodes'][j] for j in range(len(names))}
    factors = []
    ci = 0
    for k, e in enumerate(r['edges']):
        if e['label'] in spec['terminals']:
            factors.append((e['label'], [names[a] for a in e['att']]))
        else:
            sub_nodes, sub_factors, sub_ext = expand(spec, children[ci], path + (k,))
            ci += 1
            ren = {se: names[a] for se, a in zip(sub_ext, e['att'])}
            for nm, lab in sub_nodes.items():
                if nm not in ren:
                    nodes[nm] = lab
            for t, ns in sub_factors:
                factors.append((t, [ren.get(n, n) for n in ns]))
    return nodes, factors, [names[p] for p in r['ext']]


def brute_force(spec, ops, nodes, factors, ext):
    """Semiring sum over all assignments of the flat factor graph, as a tensor over ext."""
    sizes = spec['node_labels']
    w = {n: ops.conv(t['weights']) for n, t in spec['terminals'].items()}
    names = list(nodes)
    shape = tuple(sizes[nodes[n]] for n in ext)
    out = np.full(shape, ops.zero, dtype=ops.dtype)
    ranges = [range(sizes[nodes[n]]) for n in names]
    pos = {n: i for i, n in enumerate(names)}
    for asst in itertools.product(*ranges):
        val = np.asarray(ops.one, dtype=ops.dtype)
        for t, ns in factors:
            val = ops.mul(val, np.asarray(w[t])[tuple(asst[pos[n]] for n in ns)] if ns else np.asarray(w[t]))
        idx = tuple(asst[pos[n]] for n in ext)
        out[idx] = ops.add(out[idx], val)
    return out


def value_by_derivations(spec, ops, nt, depth):
    shape = tuple(spec['node_labels'][nl] for nl in spec['nonterminals'][nt])
    total = np.full(shape, ops.zero, dtype=ops.dtype)
    for tree in derivation_trees(spec, nt, depth):
        nodes, factors, ext = expand(spec, tree)
        total = ops.add(total, brute_force(spec, ops, nodes, factors, ext))
    return total


def selfcheck():
    """O1 against O6 on fixed small specs (non-recursive), all three numpy semirings, plus TorchEval vs NumEval."""
    import torch
    spec = {
        'node_labels': {'A': 2, 'B': 3},
        'terminals': {'f': {'type': ['A', 'B'], 'weights': [[0.5, 0.0, 2.0], [1.0, INF, 0.25]]},
                      'g': {'type': ['B'], 'weights': [1.0, 0.0, 3.0]},
                      'c': {'type': [], 'weights': 2.0},
                      'h': {'type': ['A', 'A'], 'weights': [[1.0, 2.0], [0.0, 0.5]]}},
        'nonterminals': {'S': ['A'], 'X': ['B', 'A'], 'Y': [], 'Z': ['A']},
        'start': 'S',
        'rules': [
            {'lhs': 'S', 'nodes': ['B', 'A', 'A', 'B'], 'ext': [1], 'edges': [{'label': 'X', 'att': [0, 1]}, {'label': 'h', 'att': [2, 2]}, {'label': 'Y', 'att': []}]},
            {'lhs': 'S', 'nodes': ['A'], 'ext': [0], 'edges': []},
            {'lhs': 'X', 'nodes': ['A', 'B'], 'ext': [1, 0], 'edges': [{'label': 'f', 'att': [0, 1]}, {'label': 'g', 'att': [1]}]},
            {'lhs': 'X', 'nodes': ['B', 'A', 'B'], 'ext': [0, 1], 'edges': [{'label': 'g', 'att': [2]}]},
            {'lhs': 'Y', 'nodes': [], 'ext': [], 'edges': [{'label': 'c', 'att': []}, {'label': 'c', 'att': []}]},
        ]}
    for ops in (RealOps, MaxPlusOps, BoolOps):
        a = NumEval(spec, ops).nonrecursive()
        for nt in spec['nonterminals']:
            b = value_by_derivations(spec, ops, nt, 4)
            if ops is BoolOps:
                assert np.array_equal(a[nt], b), (ops.name, nt, a[nt], b)
            else:
                assert np.allclose(a[nt], b, rtol=1e-12, atol=0, equal_nan=False) and \
                       np.array_equal(np.isinf(a[nt]), np.isinf(b)), (ops.name, nt, a[nt], b)
    spec2 = dict(spec)
    spec2['terminals'] = dict(spec['terminals'], f={'type': ['A', 'B'], 'weights': [[0.5, 0.0, 2.0], [1.0, 7.0, 0.25]]})
    a = NumEval(spec2, RealOps).nonrecursive()
    te = TorchEval(spec2)
    v = torch.zeros(te.n, dtype=torch.float64)
    for _ in range(5): v = te.F(v)
    b = te.unpack(v)
    for nt in spec2['nonterminals']:
        assert np.allclose(a[nt], b[nt].numpy(), rtol=1e-12), (nt, a[nt], b[nt])
    # recursive: x = 0.25 x^2 + 0.5  -> least root 2 - sqrt(2)
    rec = {'node_labels': {'A': 1}, 'terminals': {'a': {'type': [], 'weights': 0.25}, 'b': {'type': [], 'weights': 0.5}},
           'nonterminals': {'S': []}, 'start': 'S',
           'rules': [{'lhs': 'S', 'nodes': [], 'ext': [], 'edges': [{'label': 'a', 'att': []}, {'label': 'S', 'att': []}, {'label': 'S', 'att': []}]},
                     {'lhs': 'S', 'nodes': [], 'ext': [], 'edges': [{'label': 'b', 'att': []}]}]}
    r = TorchEval(rec).least_fixed_point()
    assert r['ok'] and abs(float(r['x']['S']) - (2 - math.sqrt(2))) < 1e-12, r
