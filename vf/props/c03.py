"""C03  Gradients of the sum-product are the true derivatives."""
from __future__ import annotations
import itertools, math, warnings
import numpy as np
from hypothesis import strategies as st
from .. import gen_fgg, gen_pattern as gp, oracle_fgg as of, admit, cmp

ID = 'C03'
RULE = ("G1 specs (recursive and not; shared factors, factors unreachable from the start, disconnected nodes, edges attached to "
        "external nodes, typed patterned weights) deterministically rescaled until an independent reference finds a finite least "
        "fixed point with Jacobian inf-norm <= 0.9, x {Real,Log} x {fixed-point,newton,linear where linear} x random output "
        "cotangent x leaf style (torch leaf wrapped by FiniteFactor, read leaf.grad / factor.weights.requires_grad_(), read "
        "factor.weights.grad); library run at tol=1e-12 float64; oracle = independent implicit differentiation (dense torch "
        "re-implementation of the equations, own transposed solve + autograd of one application); Log: derivative of <c,log Z> "
        "wrt finite log-weights over start cells with Z>0. non-trivial = reference gradient non-zero and spec has one of "
        "{cyclic SCC, shared factor, disconnected node, edge on an external node, patterned weight}; distinct by case hash")
ASSUMPTIONS = ["only specs with finite Z and rho_inf(J(x*)) <= 0.9 are judged (gradient finite and well conditioned); others counted in 'skipped'",
               "tolerance |g-g_ref| <= 1e-6*|g_ref| + 1e-8*(1+max|g_ref|) + 4*|g(x*)-g(x*-4B)| (B = derived fixed-point bound at tol 1e-12; last term = the oracle's first-order sensitivity of the gradient to the fixed point)",
               "Log semiring: entries with log-weight -inf and start cells with Z=0 are excluded, as the statement says",
               "patterned weights: gradient is compared on the physically backed entries (weights.grad marks the rest with nan)"]
ESSENTIAL_LABELS = ['dead-rule-first', 'recursive', 'shared-factor', 'unreachable-factor', 'patterned-weight', 'edge-on-external', 'kind:log', 'style:requires_grad_']
KINDS = ['real', 'log']
METHODS = ['fixed-point', 'newton', 'linear']


def budget(tier):
    return {'examples': 420 if tier == 'quick' else 6000, 'shrink_calls': 150}


@st.composite
def cases(draw, tier):
    rec = draw(st.integers(0, 2)) > 0
    base = gen_fgg.specs(recursive=rec, weights=(0.0, 0.25, 0.5, 0.5, 1.0, 1.0, 2.0), max_nts=3, max_dom=2 if tier == 'quick' else 3,
                         max_edges=3, max_nodes=5)
    spec = draw(gen_fgg.patterned(base, weights=(0.0, 0.25, 0.5, 1.0, 2.0), p_bcast=0.0) if draw(st.booleans()) else base)
    if spec['rules'] and draw(st.integers(0, 3)) == 0:
        gen_fgg.inject_dead_rule(draw, spec)
    n = 3 if tier == 'quick' else 6
    configs = [[draw(st.sampled_from(KINDS)), draw(st.sampled_from(METHODS)), draw(st.sampled_from(['leaf', 'requires_grad_']))] for _ in range(n)]
    ncot = 1
    for nl in spec['nonterminals'][spec['start']]: ncot *= spec['node_labels'][nl]
    cot = [draw(st.sampled_from((1.0, 1.0, 0.0, 2.0, -1.0, 0.5))) for _ in range(ncot)]
    # now and then the command-line route: bin/sum_product.py prints gradients and expected counts (-g/-G/-e, weighted by -o)
    return {'spec': spec, 'configs': configs, 'cot': cot, 'bin': draw(st.integers(0, 39)) == 0}


def strategy(tier):
    return cases(tier)


def factor_uses(spec):
    uses = {}
    for r in spec['rules']:
        for e in r['edges']:
            if e['label'] in spec['terminals']:
                uses[e['label']] = uses.get(e['label'], 0) + 1
    return uses


def check(case, ctx):
    import torch, fggs
    spec0 = case['spec']
    feats = gen_fgg.spec_features(spec0)
    ctx.label(*feats)
    s, fp, h = admit.admit(spec0)
    if s is None:
        ctx.skip('not admissible (divergent or rho>0.9 after 6 halvings)'); return
    spec = s
    start = spec['start']
    te = fp['te']
    xstar = fp['x'][start]
    shape = tuple(xstar.shape)
    cot = torch.tensor(case['cot'], dtype=torch.float64).reshape(shape)
    uses = factor_uses(spec)
    reach = gen_fgg.reachable_nts(spec)
    used_reach = {e['label'] for r in spec['rules'] if r['lhs'] in reach for e in r['edges']}
    shared = any(v >= 2 for v in uses.values())
    unreachable_factor = any(t not in used_reach for t in spec['terminals'])
    edge_on_ext = any(a in r['ext'] for r in spec['rules'] for e in r['edges'] for a in e['att'])
    if case.get('bin'):
        from . import c11
        c11.check_bin_script(spec, ctx, methods=('newton',), flags=('',))      # one run: the interpreter modes are C11's business
    ctx.label('dead-rule-first' if 'D' in spec0['nonterminals'] else None, 'shared-factor' if shared else None, 'unreachable-factor' if unreachable_factor else None,
              'edge-on-external' if edge_on_ext else None)
    names = list(spec['terminals'])
    refs = {}
    sens = {}

    def reference(kind):
        if kind in refs: return refs[kind]
        scale_all = max([float(v.abs().max()) for v in fp['x'].values() if v.numel()] + [0.0])
        Bk = (1e-12 / (1 - fp['rho_inf'])) if kind == 'real' else scale_all * math.expm1(1e-12) / (1 - fp['rho_inf'])
        sens[kind] = admit.gradient_sensitivity(fp, start, cot, names, 4 * Bk + 1e-13 * scale_all, log_domain=(kind == 'log'))
        if kind == 'real':
            g = te.gradients(fp['vec'], fp['J'], cot, start, names)
            refs[kind] = ({n: v.numpy() for n, v in g.items()}, None)
        else:
            Z = xstar
            mask = Z > 0
            c_eff = torch.where(mask, cot / torch.where(mask, Z, torch.ones_like(Z)), torch.zeros_like(Z))
            g = te.gradients(fp['vec'], fp['J'], c_eff, start, names)
            out = {}
            for n, v in g.items():
                w = te.w[n]
                out[n] = (v * w).numpy()      # d/d log w = w d/dw
            refs[kind] = (out, mask)
        return refs[kind]

    nontrivial = False
    seen = set()
    for kind, method, style in case['configs']:
        if (kind, method, style) in seen: continue
        seen.add((kind, method, style))
        if method == 'linear' and not gen_fgg.is_linear(spec):
            continue
        ref, mask = reference(kind)
        if kind == 'log' and not bool(mask.any()):
            ctx.skip('log: no start cell with Z>0'); continue
        cfg = f'{kind}/{method}/{style}'
        ctx.label('kind:' + kind, 'style:' + style, 'method:' + method)
        leaves = {}
        def hook(name, w):
            w = w.clone().requires_grad_(True)
            leaves[name] = w
            return w
        try:
            if style == 'leaf':
                has_pat = any(t.get('pattern') for t in spec['terminals'].values())
                if has_pat:
                    fgg, info = gen_fgg.build(spec, kind, torch.float64, leaf_patterns=True)
                    leaves = dict(info['leaves'])
                    # dense terminals: make their weights leaves through the documented route as well
                    for n in names:
                        if n not in leaves:
                            fgg.factors[n].weights.requires_grad_()
                else:
                    fgg, info = gen_fgg.build(spec, kind, torch.float64, weight_hook=hook)
            else:
                fgg, info = gen_fgg.build(spec, kind, torch.float64)
                for n in names:
                    fgg.factors[n].weights.requires_grad_()
        except Exception as e:
            ctx.violation('build-failed', f'{type(e).__name__}: {e}'); return
        sr = gen_fgg.make_semiring(kind, torch.float64)
        try:
            with warnings.catch_warnings():
                warnings.simplefilter('ignore')
                z = ctx.call('sum_product', fggs.sum_product, fgg, method=method, semiring=sr, tol=1e-12, kmax=20000)
                zd = ctx.call('to_dense', z.to_dense)
                if kind == 'real':
                    f = (zd * cot).sum()
                else:
                    f = (zd[mask] * cot[mask]).sum()
                if not f.requires_grad:
                    # no factor influences the start symbol: every gradient must be absent/zero
                    grads_absent = True
                else:
                    grads_absent = False
                    ctx.call('backward', f.backward)
        except Exception:
            ctx.violations[-1].detail['config'] = cfg
            continue
        for n in names:
            t = spec['terminals'][n]
            fac = fgg.factors[n]
            want = ref[n]
            try:
                if n in leaves:
                    g = leaves[n].grad
                    gd = None if g is None else g.detach().numpy().reshape(np.asarray(flat_phys_shape(t)).tolist() if t.get('pattern') else want.shape)
                    backed = 'phys' if t.get('pattern') else 'dense'
                else:
                    g = ctx.call('weights.grad', lambda: fac.weights.grad)
                    gd = None if g is None else ctx.call('grad.to_dense', g.to_dense).numpy()
                    backed = 'dense-nan'
            except Exception:
                continue
            if t.get('pattern') and backed == 'phys':
                ps = t['pattern']
                sizes = ps['paxes']
                import itertools
                want_p = np.zeros(sizes)
                for idx in itertools.product(*[range(x) for x in sizes]):
                    want_p[idx] = want[tuple(gp.pat_index(P, idx, sizes) for P in ps['vaxes'])]
                want_cmp = want_p
                wts = np.array(ps['phys'], dtype=float).reshape(sizes)
            else:
                want_cmp = want
                wts = np.asarray(t['weights'], dtype=float)
            if gd is None:
                gd = np.zeros_like(want_cmp)
            gd = np.asarray(gd, dtype=float)
            if gd.shape != want_cmp.shape:
                try:
                    gd = gd.reshape(want_cmp.shape)
                except Exception:
                    ctx.violation('grad-shape', f'[{cfg}] grad of {n} has shape {gd.shape}, weights {want_cmp.shape}', config=cfg); continue
            sel = np.ones(want_cmp.shape, dtype=bool)
            if backed == 'dense-nan':
                sel &= ~np.isnan(gd)           # unbacked entries of a patterned weight are marked nan by design
                if t.get('pattern'):
                    sel &= gp.support_mask(t['pattern'])
                    if not ctx.require(not np.isnan(gd[gp.support_mask(t['pattern'])]).any(), 'grad-nan', f'[{cfg}] nan gradient on a backed entry of {n}', config=cfg):
                        continue
                else:
                    if not ctx.require(not np.isnan(gd).any(), 'grad-nan', f'[{cfg}] nan gradient for dense weight {n}: {gd.tolist()}', config=cfg):
                        continue
            if kind == 'log':
                sel &= (wts > 0)               # finite log-weights only
            scale = float(np.max(np.abs(want_cmp[sel]))) if sel.any() else 0.0
            err = np.abs(gd[sel] - want_cmp[sel])
            allow = sens[kind][n]
            if t.get('pattern') and backed == 'phys':
                ap = np.zeros(t['pattern']['paxes'])
                for idx in itertools.product(*[range(x) for x in t['pattern']['paxes']]):
                    ap[idx] = allow[tuple(gp.pat_index(P, idx, t['pattern']['paxes']) for P in t['pattern']['vaxes'])]
                allow = ap
            ok = bool(np.all(err <= 1e-6 * np.abs(want_cmp[sel]) + 1e-8 * (1 + scale) + 4 * allow[sel]))
            ctx.require(ok, 'wrong-gradient', f'[{cfg}] d/d{n}: got {gd.tolist()} expected {want_cmp.tolist()} (Z*={xstar.tolist()}, cot={cot.tolist()})',
                        config=cfg, sr=kind, method=method, factor=n)
            if sel.any() and np.any(want_cmp[sel] != 0):
                if 'recursive' in feats or shared or 'disconnected-internal' in feats or edge_on_ext or t.get('pattern'):
                    nontrivial = True
    ctx.nontrivial = nontrivial


def flat_phys_shape(t):
    return t['pattern']['paxes']


def route(case, v):
    return None


def selfcheck():
    of.selfcheck()
    import torch
    # expected-count reading: S -> a S | b ; x = a x + b, Z = b/(1-a); dZ/da = b/(1-a)^2, dZ/db = 1/(1-a)
    rec = {'node_labels': {'A': 1}, 'terminals': {'a': {'type': [], 'weights': 0.25}, 'b': {'type': [], 'weights': 0.5}},
           'nonterminals': {'S': []}, 'start': 'S',
           'rules': [{'lhs': 'S', 'nodes': [], 'ext': [], 'edges': [{'label': 'a', 'att': []}, {'label': 'S', 'att': []}]},
                     {'lhs': 'S', 'nodes': [], 'ext': [], 'edges': [{'label': 'b', 'att': []}]}]}
    te = of.TorchEval(rec); fp = te.least_fixed_point()
    g = te.gradients(fp['vec'], fp['J'], torch.tensor(1.0, dtype=torch.float64), 'S', ['a', 'b'])
    assert abs(float(g['a']) - 0.5 / 0.75 ** 2) < 1e-12 and abs(float(g['b']) - 1 / 0.75) < 1e-12
