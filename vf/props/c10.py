"""C10  Tree decompositions are valid; exact methods are optimal."""
from __future__ import annotations
import itertools, os
from hypothesis import strategies as st
from .. import oracle_graph as og

ID = 'C10'
RULE = ("undirected simple graphs as symmetric adjacency dicts with explicit vertex insertion order: all labelled "
        "graphs on n<=5 (quick) / n<=6 (thorough) vertices enumerated, plus random G(n,p) n<=9/11 and structured "
        "families (paths, cycles, trees, grids, cliques, complete bipartite, disjoint unions with isolated "
        "vertices); each x {min_fill, quickbb, acb} + bound helpers; oracle = validity predicate + exact "
        "subset-DP treewidth; non-trivial = >=3 vertices and >=1 edge; distinct by case hash (enumerated "
        "graphs are distinct by construction)")
ASSUMPTIONS = ["graph argument is a symmetric adjacency dict {v: set(neighbours)} without self-loops (what "
               "factorize_rule builds); a fresh copy is passed to each call (the functions consume their argument)",
               "empty graph: validity only (no width convention asserted)"]
ESSENTIAL_LABELS = ['disconnected', 'isolated', 'tw>=2', 'tree', 'minfill-suboptimal']
METHODS = ('min_fill', 'quickbb', 'acb')


def budget(tier):
    return {'examples': 1600 if tier == 'quick' else 40000, 'shrink_calls': 300}


def build(n, edges, order):
    g = {v: set() for v in order}
    for u, v in edges:
        g[u].add(v); g[v].add(u)
    return g


def judge(n, edges, order, ctx):
    """All C10 clauses on one graph. Returns False after the first violation."""
    from fggs import factorize as fz
    adj = og.adj_masks(n, edges)
    tw = og.treewidth(n, adj)
    verts = list(range(n))
    widths = {}
    for m in METHODS:
        g = build(n, edges, order)
        try:
            t = ctx.call(f'tree_decomposition[{m}]', fz.tree_decomposition, g, method=m)
        except Exception:
            return False
        probs = og.td_problems(verts, edges, t)
        if not ctx.require(not probs, f'invalid-td[{m}]', '; '.join(probs[:3]), method=m):
            return False
        if n > 0:
            widths[m] = og.td_width(t)
    if n == 0:
        return True
    ok = True
    ok &= ctx.require(widths['acb'] == tw, 'acb-not-optimal', f"acb width {widths['acb']} != treewidth {tw}")
    ok &= ctx.require(widths['quickbb'] == tw, 'quickbb-td-not-optimal',
                      f"quickbb decomposition width {widths['quickbb']} != treewidth {tw}")
    try:
        qw, qorder = ctx.call('quickbb', fz.quickbb, build(n, edges, order))
        mw, morder = ctx.call('min_fill', fz.min_fill, build(n, edges, order))
        lb = ctx.call('minor_min_width', fz.minor_min_width, build(n, edges, order))
    except Exception:
        return False
    ok &= ctx.require(sorted(qorder) == verts, 'quickbb-order-not-permutation', f'{qorder}')
    ok &= ctx.require(sorted(morder) == verts, 'min_fill-order-not-permutation', f'{morder}')
    if not ok:
        return False
    ok &= ctx.require(qw == tw, 'quickbb-width', f'quickbb reports {qw}, treewidth is {tw}')
    ok &= ctx.require(og.elimination_width(n, adj, qorder) == tw, 'quickbb-order-width',
                      f'order {qorder} has width {og.elimination_width(n, adj, qorder)}, treewidth {tw}')
    ew = og.elimination_width(n, adj, morder)
    ok &= ctx.require(ew == mw, 'min_fill-reported-width', f'min_fill reports {mw}, its order has width {ew}')
    ok &= ctx.require(widths['min_fill'] == mw, 'min_fill-td-width',
                      f"decomposition from min_fill has width {widths['min_fill']}, reported {mw}")
    if mw > tw: ctx.label('minfill-suboptimal')
    if lb < tw: ctx.label('lowerbound-not-tight')
    ok &= ctx.require(lb <= tw <= mw, 'bounds-do-not-bracket', f'minor_min_width={lb} tw={tw} min_fill={mw}')
    # the aliases used by quickbb/acb
    ok &= ctx.require(fz.upper_bound(build(n, edges, order))[0] >= tw and fz.lower_bound(build(n, edges, order)) <= tw,
                      'alias-bounds', 'upper_bound/lower_bound do not bracket the treewidth')
    return bool(ok)


def graph_features(n, edges):
    adj = og.adj_masks(n, edges)
    # components
    seen = 0; comps = 0
    for v in range(n):
        if not seen >> v & 1:
            comps += 1
            stack = [v]; seen |= 1 << v
            while stack:
                u = stack.pop()
                x = adj[u] & ~seen
                seen |= x
                while x:
                    b = x & -x; x ^= b; stack.append(b.bit_length() - 1)
    iso = any(adj[v] == 0 for v in range(n))
    tree = comps == 1 and len(edges) == n - 1 and n >= 2
    clique = n >= 3 and len(edges) == n * (n - 1) // 2
    return comps, iso, tree, clique


_PAIRS = {n: [(u, v) for v in range(n) for u in range(v)] for n in range(0, 8)}


def check(case, ctx):
    if case['kind'] == 'block':
        n, lo, hi, seed = case['n'], case['lo'], case['hi'], case['seed']
        pairs = _PAIRS[n]
        perms = list(itertools.permutations(range(n))) if n <= 5 else None
        for idx in range(lo, hi):
            edges = [pairs[i] for i in range(len(pairs)) if idx >> i & 1]
            if perms is not None:
                order = list(perms[(idx * 13 + seed * 7) % len(perms)])
            else:
                k = (idx * 13 + seed * 7) % n
                order = list(range(k, n)) + list(range(k))
            ctx.extra_evals += 1
            if not judge(n, edges, order, ctx):
                ctx.violations[-1].detail['subcase'] = {'kind': 'graph', 'n': n, 'edges': [list(e) for e in edges], 'order': order}
                return
            if n >= 3 and edges:
                ctx.extra_nontrivial += 1
        ctx.label(f'exhaustive-n={n}')
        return
    n = case['n']
    edges = sorted({(min(u, v), max(u, v)) for u, v in case['edges'] if u != v})
    order = case.get('order') or list(range(n))
    comps, iso, tree, clique = graph_features(n, edges)
    tw = og.treewidth(n, og.adj_masks(n, edges)) if n else -1
    ctx.label('disconnected' if comps > 1 else None, 'isolated' if iso and n > 1 else None,
              'tree' if tree else None, 'clique' if clique else None, 'tw>=2' if tw >= 2 else None,
              'tw>=3' if tw >= 3 else None, 'empty-graph' if n == 0 else None, 'family:' + case['family'] if case.get('family') else None)
    judge(n, edges, order, ctx)
    ctx.nontrivial = n >= 3 and bool(edges)


def enumerate_cases(tier, shard, nshards):
    seed = int(os.environ.get('VERIF_SEED', '1') or '1')
    nmax = 5 if tier == 'quick' else 6
    blocks = []
    for n in range(0, nmax + 1):
        total = 1 << len(_PAIRS[n])
        bs = 16 if n <= 5 else 128
        for lo in range(0, total, bs):
            blocks.append({'kind': 'block', 'n': n, 'lo': lo, 'hi': min(total, lo + bs), 'seed': seed})
    for i, b in enumerate(blocks):
        if i % nshards == shard:
            yield b


def exhaustive_note(tier):
    n = 5 if tier == 'quick' else 6
    return f"all labelled simple graphs on 0..{n} vertices (2^(n(n-1)/2) each) x 3 methods, one seed-selected vertex insertion order each, completed"


@st.composite
def random_graphs(draw, nmax):
    n = draw(st.integers(0, nmax))
    p = draw(st.sampled_from([0.15, 0.3, 0.5, 0.8]))
    edges = [[u, v] for v in range(n) for u in range(v) if draw(st.floats(0, 1)) < p]
    order = list(draw(st.permutations(list(range(n)))))
    return {'kind': 'graph', 'n': n, 'edges': edges, 'order': order}


@st.composite
def family_graphs(draw, nmax):
    fam = draw(st.sampled_from(['path', 'cycle', 'tree', 'grid', 'clique', 'bipartite', 'union']))
    def one(fam, k):
        if fam == 'path': return k, [[i, i + 1] for i in range(k - 1)]
        if fam == 'cycle': return k, [[i, (i + 1) % k] for i in range(k)] if k >= 3 else [[i, i + 1] for i in range(k - 1)]
        if fam == 'tree': return k, [[draw(st.integers(0, i - 1)), i] for i in range(1, k)]
        if fam == 'clique': return k, [[u, v] for v in range(k) for u in range(v)]
        if fam == 'grid':
            r = draw(st.integers(1, 3)); c = max(1, k // r)
            e = [[i * c + j, i * c + j + 1] for i in range(r) for j in range(c - 1)] + \
                [[i * c + j, (i + 1) * c + j] for i in range(r - 1) for j in range(c)]
            return r * c, e
        if fam == 'bipartite':
            a = draw(st.integers(1, max(1, k - 1))); b = max(1, k - a)
            return a + b, [[i, a + j] for i in range(a) for j in range(b)]
    if fam != 'union':
        n, edges = one(fam, draw(st.integers(1, nmax)))
    else:
        n, edges = 0, []
        for _ in range(draw(st.integers(2, 3))):
            f = draw(st.sampled_from(['path', 'cycle', 'tree', 'clique', 'bipartite', 'isolated']))
            if f == 'isolated':
                k, e = draw(st.integers(1, 2)), []
            else:
                k, e = one(f, draw(st.integers(1, max(1, nmax // 2))))
            edges += [[u + n, v + n] for u, v in e]
            n += k
    # relabel vertices randomly, random insertion order
    relabel = list(draw(st.permutations(list(range(n)))))
    edges = [[relabel[u], relabel[v]] for u, v in edges]
    order = list(draw(st.permutations(list(range(n)))))
    return {'kind': 'graph', 'n': n, 'edges': edges, 'order': order, 'family': fam}


_HARD = None
def hard_corpus():
    global _HARD
    if _HARD is None:
        import json
        with open(os.path.join(os.path.dirname(os.path.dirname(os.path.abspath(__file__))), 'data', 'minfill_hard.json')) as f:
            _HARD = json.load(f)
    return _HARD


@st.composite
def hard_graphs(draw):
    """Corpus of small graphs on which the min-fill heuristic is not optimal (found by an offline random
    search against the subset-DP oracle), relabelled and optionally perturbed by one edge: these are the
    inputs on which quickbb's branch and bound actually has to improve on its initial upper bound."""
    g = draw(st.sampled_from(hard_corpus()))
    n = g['n']
    relabel = list(draw(st.permutations(list(range(n)))))
    edges = {(min(relabel[u], relabel[v]), max(relabel[u], relabel[v])) for u, v in g['edges']}
    if draw(st.integers(0, 3)) == 0:
        u = draw(st.integers(0, n - 1)); v = draw(st.integers(0, n - 1))
        if u != v:
            e = (min(u, v), max(u, v))
            edges ^= {e}
    order = list(draw(st.permutations(list(range(n)))))
    return {'kind': 'graph', 'n': n, 'edges': [list(e) for e in sorted(edges)], 'order': order, 'family': 'minfill-hard'}


def strategy(tier):
    nmax = 9 if tier == 'quick' else 11
    return st.one_of(random_graphs(nmax), family_graphs(nmax), hard_graphs())


def route(case, v):
    # D4 (fixed in the repository): acb dropped components when one component was a single vertex
    return None


def selfcheck():
    og.selfcheck()
