"""C17  Conjunction generates exactly the paired derivations."""
from __future__ import annotations
import itertools
from hypothesis import strategies as st

ID = 'C17'
RULE = ("pairs of HRGs built top-down over a shared pool of rule skeletons (explicit node ids, external lists, nonterminal-edge ids "
        "with attachments; variants of a skeleton differ in one attachment, the external order or an extra node), each grammar with its "
        "own nonterminal labels (names chosen to provoke '<X,Y,Z>' clashes and terminal/nonterminal name re-use), its own terminal edges "
        "(distinct ids) and several rules per skeleton; plus pairs with a genuine terminal conflict (same name, different type). Oracle: "
        "own conjoinability predicate and own expected conjoined-rule signatures (nodes, externals, nonterminal edges by id with paired "
        "labels, terminal edges of both) must equal the rule multiset of conjoin_hrgs; derivation counts up to depth 4 by dynamic "
        "programming on both sides; paired names injective, fresh, correctly typed; conflict => ValueError, otherwise none. "
        "non-trivial = >= 1 conjoinable and >= 1 non-conjoinable rule pair and a paired derivation of depth >= 2; distinct by case hash")
ASSUMPTIONS = ["node and nonterminal-edge ids are explicit strings shared by the two grammars (the documented way, as in test/conjunct.json)",
               "terminal edges of the two grammars carry distinct ids", "the pair->name map is read through fggs.conjunction.nonterminal_pairs and then checked (injective, fresh, typed)"]
ESSENTIAL_LABELS = ['conjoinable-pair', 'non-conjoinable-pair', 'paired-derivation-depth>=2', 'name-clash', 'terminal-conflict', 'only-one-grammar-skeleton']

NODE_LABELS = ['A', 'B']
TYPES = [[], ['A'], ['A', 'B'], ['B'], ['A', 'A']]
NAMES1 = ['S', 'X', 'X,Y', 'P', '<X,Y>']
NAMES2 = ['S', 'Y,Z', 'Z', 'Y', 'Q']
TERMS = [('t1', ['A']), ('t2', ['A', 'B']), ('t3', []), ('u', ['B']), ('<X,Y,Z>', ['A']), ('X', ['B'])]


def budget(tier):
    return {'examples': 480 if tier == 'quick' else 8000, 'shrink_calls': 200}


@st.composite
def skeletons(draw):
    """pool of skeletons; skeleton = {'nodes': [label...], 'ext': [pos...], 'nts': [[edge id, [pos...]]...]}; node ids are global per position"""
    pool = []
    nbase = draw(st.integers(1, 3))
    for k in range(nbase):
        nn = draw(st.integers(0, 4))
        nodes = [draw(st.sampled_from(NODE_LABELS)) for _ in range(nn)]
        typ = draw(st.sampled_from(TYPES))
        ext = []
        for nl in typ:
            c = [j for j, l in enumerate(nodes) if l == nl and j not in ext]
            if c: ext.append(draw(st.sampled_from(c)))
            else:
                nodes.append(nl); ext.append(len(nodes) - 1)
        nts = []
        for e in range(draw(st.integers(0, 2))):
            t = draw(st.sampled_from(TYPES))
            att = []
            for nl in t:
                c = [j for j, l in enumerate(nodes) if l == nl]
                if c: att.append(draw(st.sampled_from(c)))
                else:
                    nodes.append(nl); att.append(len(nodes) - 1)
            nts.append([f'e{k}_{9 - e}', att])
        base = {'fam': k, 'nodes': nodes, 'ext': ext, 'nts': nts}
        pool.append(base)
        # variants sharing ids with the base skeleton
        for v in range(draw(st.integers(0, 2))):
            kind = draw(st.sampled_from(['ext-swap', 'att-change', 'extra-node', 'drop-nt']))
            var = {'fam': k, 'nodes': list(base['nodes']), 'ext': list(base['ext']), 'nts': [[i, list(a)] for i, a in base['nts']]}
            if kind == 'ext-swap' and len(var['ext']) >= 2 and var['nodes'][var['ext'][0]] == var['nodes'][var['ext'][1]]:
                var['ext'][0], var['ext'][1] = var['ext'][1], var['ext'][0]
            elif kind == 'att-change' and var['nts'] and var['nts'][0][1]:
                a = var['nts'][0][1]
                c = [j for j, l in enumerate(var['nodes']) if l == var['nodes'][a[0]] and j != a[0]]
                if c: a[0] = draw(st.sampled_from(c))
                else: continue
            elif kind == 'extra-node':
                var['nodes'].append(draw(st.sampled_from(NODE_LABELS)))
            elif kind == 'drop-nt' and var['nts']:
                var['nts'].pop()
            else:
                continue
            pool.append(var)
    return pool


@st.composite
def grammar(draw, pool, names, gi, term_pool):
    """A grammar over the pool. Nonterminals: name -> type."""
    nts = {}
    for nm in names:
        if nm == 'S' or draw(st.integers(0, 2)) > 0:
            nts[nm] = draw(st.sampled_from(TYPES)) if nm != 'S' else None
    rules = []
    sk_choices = [i for i in range(len(pool)) if draw(st.integers(0, 3)) > 0] or [0]
    def type_of(sk): return [sk['nodes'][p] for p in sk['ext']]
    # start symbol: type of a chosen skeleton
    s_sk = pool[sk_choices[0]]
    nts['S'] = type_of(s_sk)
    tcount = 0
    for si in sk_choices:
        sk = pool[si]
        lhs_c = [n for n, t in nts.items() if t == type_of(sk)]
        if not lhs_c: continue
        for rep in range(draw(st.integers(1, 2))):
            lhs = draw(st.sampled_from(lhs_c))
            nt_edges = []
            ok = True
            for eid, att in sk['nts']:
                t = [sk['nodes'][p] for p in att]
                c = [n for n, ty in nts.items() if ty == t]
                if not c: ok = False; break
                nt_edges.append([eid, att, draw(st.sampled_from(c))])
            if not ok: continue
            terms = []
            for _ in range(draw(st.integers(0, 2))):
                tn, tt = draw(st.sampled_from(term_pool))
                att = []
                good = True
                for nl in tt:
                    c = [j for j, l in enumerate(sk['nodes']) if l == nl]
                    if not c: good = False; break
                    att.append(draw(st.sampled_from(c)))
                if good:
                    terms.append([f'g{gi}t{tcount}', tn, tt, att]); tcount += 1
            rules.append({'skeleton': si, 'lhs': lhs, 'nts': nt_edges, 'terms': terms})
    return {'nts': nts, 'rules': rules}


@st.composite
def term_edges(draw, sk, gi, counter, term_pool):
    terms = []
    for _ in range(draw(st.integers(0, 2))):
        tn, tt = draw(st.sampled_from(term_pool))
        att = []
        good = True
        for nl in tt:
            c = [j for j, l in enumerate(sk['nodes']) if l == nl]
            if not c: good = False; break
            att.append(draw(st.sampled_from(c)))
        if good:
            terms.append([f'g{gi}t{counter[0]}', tn, tt, att]); counter[0] += 1
    return terms


@st.composite
def cases(draw, tier):
    """Both grammars are projections of a drawn *joint* grammar over pairs of nonterminals (so paired derivations exist
    by construction), plus rules that exist in only one grammar, variant skeletons and per-grammar terminal edges."""
    pool = draw(skeletons())
    # a leaf skeleton (no nonterminal edges) for every type, so that recursion can terminate
    for ti, T in enumerate(TYPES):
        pool.append({'fam': 90 + ti, 'nodes': list(T), 'ext': list(range(len(T))), 'nts': []})
    def type_of(sk): return [sk['nodes'][p] for p in sk['ext']]
    s_type = type_of(pool[0])
    types1 = {n: (s_type if n == 'S' else draw(st.sampled_from(TYPES))) for n in NAMES1}
    types2 = {n: (s_type if n == 'S' else draw(st.sampled_from(TYPES))) for n in NAMES2}
    conflict = draw(st.integers(0, 11)) == 0
    force_x1 = False
    terms1 = [t for t in TERMS if t[0] != 'X']
    # the conflicting version of t1 in g2 has either another arity ([]) or the same arity and kind but another node label
    # (['B'] against ['A']: only a comparison of the full type sees it -- seeded change C17-9)
    ctype = (['B'] if draw(st.booleans()) else []) if conflict else None
    terms2 = [('t1', ctype) if (conflict and t[0] == 't1') else t for t in TERMS]
    pairs = [(a, b) for a in NAMES1 for b in NAMES2 if types1[a] == types2[b]]
    def pairs_of(T): return [p for p in pairs if types1[p[0]] == T]
    c1, c2 = [0], [0]
    r1s, r2s = [], []
    njoint = draw(st.integers(2, 6))
    for m in range(njoint):
        si = 0 if m == 0 else draw(st.integers(0, len(pool) - 1))
        sk = pool[si]
        lhs_c = [('S', 'S')] if m == 0 else pairs_of(type_of(sk))
        if not lhs_c: continue
        lhs = draw(st.sampled_from(lhs_c))
        e1, e2, ok = [], [], True
        for eid, att in sk['nts']:
            c = pairs_of([sk['nodes'][p] for p in att])
            if not c: ok = False; break
            a, b = draw(st.sampled_from(c))
            e1.append([eid, att, a]); e2.append([eid, att, b])
        if not ok: continue
        r1s.append({'skeleton': si, 'lhs': lhs[0], 'nts': e1, 'terms': draw(term_edges(sk, 1, c1, terms1))})
        r2s.append({'skeleton': si, 'lhs': lhs[1], 'nts': e2, 'terms': draw(term_edges(sk, 2, c2, terms2))})
    # base cases for every pair used on a right-hand side
    used = {(a[2], b[2]) for ra, rb in zip(r1s, r2s) for a, b in zip(ra['nts'], rb['nts'])}
    for (a, b) in sorted(used):
        if draw(st.integers(0, 4)) > 0:
            T = types1[a]
            si = next(i for i, sk in enumerate(pool) if sk['fam'] == 90 + TYPES.index(T))
            r1s.append({'skeleton': si, 'lhs': a, 'nts': [], 'terms': draw(term_edges(pool[si], 1, c1, terms1))})
            r2s.append({'skeleton': si, 'lhs': b, 'nts': [], 'terms': draw(term_edges(pool[si], 2, c2, terms2))})
    # rules present in only one grammar (any skeleton, incl. variants)
    def extra(names, types, gi, counter, term_pool):
        out = []
        for _ in range(draw(st.integers(0, 2))):
            si = draw(st.integers(0, len(pool) - 1)); sk = pool[si]
            lc = [n for n in names if types[n] == type_of(sk)]
            if not lc: continue
            es, ok = [], True
            for eid, att in sk['nts']:
                c = [n for n in names if types[n] == [sk['nodes'][p] for p in att]]
                if not c: ok = False; break
                es.append([eid, att, draw(st.sampled_from(c))])
            if ok:
                out.append({'skeleton': si, 'lhs': draw(st.sampled_from(lc)), 'nts': es, 'terms': draw(term_edges(sk, gi, counter, term_pool))})
        return out
    r1s += extra(NAMES1, types1, 1, c1, terms1)
    r2s += extra(NAMES2, types2, 2, c2, terms2)
    if conflict:
        # make the conflict genuine: both grammars actually use their (differently typed) terminal t1
        if draw(st.booleans()) and r2s and not (ctype and 'B' not in pool[r2s[0]['skeleton']]['nodes']):
            for r in r2s[:1]:
                skn = pool[r['skeleton']]['nodes']
                r['terms'].append([f'g2t{c2[0]}', 't1', list(ctype), [skn.index('B')] if ctype else []]); c2[0] += 1
        else:
            # the conflicting terminal of g2 sits in a rule whose skeleton exists only in g2 (it never reaches the conjoined
            # grammar, so only the explicit collision check can report it), next to a harmless same-name pair: 'X' is a
            # nonterminal of g1 and a terminal of g2
            pool.append({'fam': 70, 'nodes': list(s_type) + ['B'], 'ext': list(range(len(s_type))), 'nts': []})
            r2s.append({'skeleton': len(pool) - 1, 'lhs': 'S', 'nts': [],
                        'terms': [[f'g2t{c2[0]}', 't1', list(ctype), [len(s_type)] if ctype else []], [f'g2t{c2[0] + 1}', 'X', ['B'], [len(s_type)]]]}); c2[0] += 2
            force_x1 = True
        for r in r1s:
            sk = pool[r['skeleton']]
            if 'A' in sk['nodes']:
                r['terms'].append([f'g1t{c1[0]}', 't1', ['A'], [sk['nodes'].index('A')]]); c1[0] += 1
                break
    for r in r1s + r2s:
        n = len(r['nts']) + len(r['terms'])
        r['order'] = list(draw(st.permutations(list(range(n))))) if n > 1 else list(range(n))
    r1s = list(draw(st.permutations(r1s))) if len(r1s) > 1 else r1s
    r2s = list(draw(st.permutations(r2s))) if len(r2s) > 1 else r2s
    used1 = {'S'} | {r['lhs'] for r in r1s} | {e[2] for r in r1s for e in r['nts']} | {n for n in NAMES1 if draw(st.integers(0, 3)) == 0} | ({'X'} if force_x1 else set())
    used2 = {'S'} | {r['lhs'] for r in r2s} | {e[2] for r in r2s for e in r['nts']} | {n for n in NAMES2 if draw(st.integers(0, 3)) == 0}
    g1 = {'nts': {n: types1[n] for n in NAMES1 if n in used1}, 'rules': r1s}
    g2 = {'nts': {n: types2[n] for n in NAMES2 if n in used2}, 'rules': r2s}
    return {'pool': pool, 'g1': g1, 'g2': g2, 'conflict': conflict}


def strategy(tier):
    return cases(tier)


def build_hrg(pool, g):
    import fggs
    nl = {n: fggs.NodeLabel(n) for n in NODE_LABELS}
    els = {n: fggs.EdgeLabel(n, [nl[x] for x in t], is_nonterminal=True) for n, t in g['nts'].items()}
    h = fggs.HRG(els['S'])
    for n in g['nts']: h.add_edge_label(els[n])
    objs = []
    for r in g['rules']:
        sk = pool[r['skeleton']]
        gr = fggs.Graph()
        nodes = [fggs.Node(nl[l], id=f'n{sk["fam"]}_{j}') for j, l in enumerate(sk['nodes'])]
        for v in nodes: gr.add_node(v)
        edges = [fggs.Edge(els[lab], [nodes[a] for a in att], id=eid) for eid, att, lab in r['nts']] + \
                [fggs.Edge(fggs.EdgeLabel(tn, [nl[x] for x in tt], is_terminal=True), [nodes[a] for a in att], id=tid) for tid, tn, tt, att in r['terms']]
        for k in r.get('order', range(len(edges))):      # edge insertion order differs between the two grammars
            gr.add_edge(edges[k])
        gr.ext = [nodes[p] for p in sk['ext']]
        rule = fggs.HRGRule(els[r['lhs']], gr)
        h.add_rule(rule)
        objs.append(rule)
    return h, els, objs


def own_conjoinable(pool, r1, r2):
    a, b = pool[r1['skeleton']], pool[r2['skeleton']]
    ida = lambda j: f'n{a["fam"]}_{j}'
    idb = lambda j: f'n{b["fam"]}_{j}'
    if sorted((ida(j), l) for j, l in enumerate(a['nodes'])) != sorted((idb(j), l) for j, l in enumerate(b['nodes'])): return False
    if [ida(p) for p in a['ext']] != [idb(p) for p in b['ext']]: return False
    if sorted((e, tuple(ida(x) for x in att)) for e, att, _ in r1['nts']) != sorted((e, tuple(idb(x) for x in att)) for e, att, _ in r2['nts']): return False
    return True


def sig_expected(pool, r1, r2, name_of):
    sk = pool[r1['skeleton']]
    nid = lambda j: f'n{sk["fam"]}_{j}'
    n2 = {e: lab for e, att, lab in r2['nts']}
    return (name_of[(r1['lhs'], r2['lhs'])],
            tuple(sorted((nid(j), l) for j, l in enumerate(sk['nodes']))),
            tuple(nid(p) for p in sk['ext']),
            tuple(sorted((e, name_of[(lab, n2[e])], tuple(nid(a) for a in att)) for e, att, lab in r1['nts'])),
            tuple(sorted((tid, tn, tuple(nid(a) for a in att)) for tid, tn, tt, att in r1['terms'] + r2['terms'])))


def sig_actual(rule):
    g = rule.rhs
    return (rule.lhs.name,
            tuple(sorted((v.id, v.label.name) for v in g.nodes())),
            tuple(v.id for v in g.ext),
            tuple(sorted((e.id, e.label.name, tuple(v.id for v in e.nodes)) for e in g.edges() if e.label.is_nonterminal)),
            tuple(sorted((e.id, e.label.name, tuple(v.id for v in e.nodes)) for e in g.edges() if e.label.is_terminal)))


def check(case, ctx):
    import fggs
    from collections import Counter
    pool, g1, g2 = case['pool'], case['g1'], case['g2']
    try:
        h1, els1, o1 = build_hrg(pool, g1)
        h2, els2, o2 = build_hrg(pool, g2)
    except Exception as e:
        raise AssertionError(f'harness: cannot build generated grammars: {type(e).__name__}: {e}')
    # genuine terminal conflict?
    t1 = {el.name: el for el in h1.terminals()}; t2 = {el.name: el for el in h2.terminals()}
    conflict = any(n in t2 and t1[n] != t2[n] for n in t1)
    snap = lambda h: (str(h), [sig_actual(r) for r in h.all_rules()])
    before = (snap(h1), snap(h2))
    if conflict:
        ctx.label('terminal-conflict', 'conflict-outside-conjoined-rules' if any(sk['fam'] == 70 for sk in pool) else None)
        ctx.expect_raises('conjoin_hrgs(terminal conflict)', ValueError, fggs.conjoin_hrgs, h1, h2)
        ctx.require((snap(h1), snap(h2)) == before, 'arguments-modified', '')
        ctx.nontrivial = True
        return
    c = ctx.call('conjoin_hrgs', fggs.conjoin_hrgs, h1, h2)
    ctx.require((snap(h1), snap(h2)) == before, 'arguments-modified', 'conjoin_hrgs changed its arguments')
    # the pair -> name map
    try:
        from fggs.conjunction import nonterminal_pairs
        ntm = nonterminal_pairs(h1, h2)
    except Exception as e:
        ctx.skip('nonterminal_pairs not available'); return
    name_of = {(a.name, b.name): v.name for (a, b), v in ntm.items()}
    ok = ctx.require(len(set(name_of.values())) == len(name_of), 'paired-names-not-unique', f'{sorted(name_of.values())}')
    existing = {el.name for el in h1.edge_labels()} | {el.name for el in h2.edge_labels()}
    ok &= ctx.require(not (set(name_of.values()) & existing), 'paired-name-collides', f'{sorted(set(name_of.values()) & existing)} already label(s) of an input grammar')
    ok &= ctx.require(set(name_of) == {(a, b) for a in g1['nts'] for b in g2['nts']}, 'pair-map-incomplete', '')
    ok &= ctx.require(c.start.name == name_of[('S', 'S')] and c.start.is_nonterminal, 'start-wrong', f'{c.start.name}')
    if not ok: return
    if any(v != f'<{a},{b}>' for (a, b), v in name_of.items()): ctx.label('name-clash')
    # every nonterminal of the result is a paired name with the type of its first component
    for el in c.nonterminals():
        pair = [p for p, v in name_of.items() if v == el.name]
        if ctx.require(len(pair) == 1, 'unknown-nonterminal', f'{el.name} is not the name of a pair'):
            ctx.require([nl.name for nl in el.type] == g1['nts'][pair[0][0]], 'paired-type-wrong', f'{el.name}')
    # rule level
    expected = Counter()
    npairs = nconj = 0
    for r1 in g1['rules']:
        for r2 in g2['rules']:
            npairs += 1
            if own_conjoinable(pool, r1, r2):
                nconj += 1
                expected[sig_expected(pool, r1, r2, name_of)] += 1
    actual = Counter(sig_actual(r) for r in c.all_rules())
    ctx.label('conjoinable-pair' if nconj else None, 'non-conjoinable-pair' if npairs > nconj else None)
    sk1 = {r['skeleton'] for r in g1['rules']}; sk2 = {r['skeleton'] for r in g2['rules']}
    if sk1 ^ sk2: ctx.label('only-one-grammar-skeleton')
    if not ctx.require(actual == expected, 'rule-set-differs',
                       f'missing {list((expected - actual).items())[:2]} unexpected {list((actual - expected).items())[:2]} ({sum(expected.values())} expected, {sum(actual.values())} actual rules)'):
        return
    # derivation counts by dynamic programming on both sides
    D = 4
    pair_cnt = {}
    def cnt_pair(x, y, d):
        if d == 0: return 0
        key = (x, y, d)
        if key in pair_cnt: return pair_cnt[key]
        tot = 0
        for r1 in g1['rules']:
            if r1['lhs'] != x: continue
            for r2 in g2['rules']:
                if r2['lhs'] != y or not own_conjoinable(pool, r1, r2): continue
                n2 = {e: lab for e, att, lab in r2['nts']}
                p = 1
                for e, att, lab in r1['nts']:
                    p *= cnt_pair(lab, n2[e], d - 1)
                    if p == 0: break
                tot += p
        pair_cnt[key] = tot
        return tot
    conj_cnt = {}
    def cnt_conj(el, d):
        if d == 0: return 0
        key = (el.name, d)
        if key in conj_cnt: return conj_cnt[key]
        tot = 0
        for r in c.rules(el):
            p = 1
            for e in r.rhs.edges():
                if e.label.is_nonterminal:
                    p *= cnt_conj(e.label, d - 1)
                    if p == 0: break
            tot += p
        conj_cnt[key] = tot
        return tot
    for d in range(1, D + 1):
        a, b = cnt_conj(c.start, d), cnt_pair('S', 'S', d)
        if not ctx.require(a == b, 'derivation-count-differs', f'depth <= {d}: {a} derivations of the conjunction, {b} conjoinable pairs of derivations'):
            return
    deep = cnt_pair('S', 'S', D) - cnt_pair('S', 'S', 1)
    if deep > 0: ctx.label('paired-derivation-depth>=2')
    ctx.nontrivial = nconj > 0 and npairs > nconj and deep > 0


def route(case, v):
    return None


def selfcheck():
    pass
