"""C16  Graphs and grammars stay well formed under any sequence of API calls."""
from __future__ import annotations
import itertools
import numpy as np
from hypothesis import strategies as st

ID = 'C16'
RULE = ("operation sequences (<= 40 steps quick / 60 thorough) over a small universe -- 3 node labels, 4 edge-label names each in "
        "conflicting types and terminal/nonterminal variants, 4 explicit node ids and 4 explicit edge ids plus implicit ones, 'twin' "
        "nodes/edges that re-use an existing id with other content, 3 domains, dense weights -- applied to a pool of Graph, FactorGraph, "
        "HRG and FGG objects: add/new/remove node and edge, set ext, copy, HRGRule/add_rule/new_rule, set start, add label, add/new "
        "domain and factor, from_graph/from_hrg; after every step, through public accessors only: structural invariants of every live "
        "object, failure atomicity (snapshot before a raising call = snapshot after), non-interference (no object other than the target "
        "changes; in particular copies are independent), copy == original with equal tables/domains/weights, == reflexive/symmetric/"
        "transitive and false for objects that differ in nodes, edges, externals, rules or start. non-trivial = a rejected call after >= 3 "
        "accepted mutations, or a copy followed by a mutation; distinct by case hash")
ASSUMPTIONS = ["a Graph handed to HRGRule/new_rule is frozen: the sequence stops mutating it (HRGRule validates at construction and shares the graph by design)",
               "ext= is given lists/tuples, not one-shot iterators", "removal functions need not prune the label tables (labels used is cumulative)"]
ESSENTIAL_LABELS = ['rejected-call', 'copy-then-mutate', 'twin-node', 'twin-edge', 'rule-added', 'factor-bound', 'label-conflict']

NL = ['A', 'B', 'C']
EL_VARIANTS = {'f': [(['A'], True), (['A', 'B'], True), (['A'], False)],
               'g': [(['B', 'B'], True), ([], True), (['B', 'B'], False)],
               'X': [(['A'], False), (['A', 'B'], False), (['A'], True)],
               'Y': [([], False), (['C'], False), (['B'], False)]}
EL_NAMES = list(EL_VARIANTS)
NODE_IDS = ['v1', 'v2', 'v3', 'v4', None, None]
EDGE_IDS = ['e1', 'e2', 'e3', 'e4', None, None]
OPS = ['add_node', 'new_node', 'remove_node', 'add_edge', 'add_edge', 'new_edge', 'remove_edge', 'set_ext', 'copy', 'new_graph',
       'new_factorgraph', 'new_hrg', 'new_fgg', 'add_rule', 'new_rule', 'set_start', 'add_node_label', 'add_edge_label',
       'add_domain', 'new_finite_domain', 'add_factor', 'new_finite_factor', 'from_graph', 'from_hrg', 'remove_twin_node', 'remove_twin_edge',
       'set_ext_twin', 'add_edge_twin_node', 'set_weights', 'set_weights', 'add_edge_clash_in_call', 'set_ext_clash_in_call', 'add_edge_wrong_arity']


def budget(tier):
    return {'examples': 640 if tier == 'quick' else 12000, 'shrink_calls': 400}


@st.composite
def cases(draw, tier):
    n = draw(st.integers(5, 40 if tier == 'quick' else 60))
    steps = [{'op': draw(st.sampled_from(OPS)), 'o': draw(st.integers(0, 7)), 'a': draw(st.integers(0, 11)), 'b': draw(st.integers(0, 11)),
              'c': draw(st.integers(0, 11)), 'd': draw(st.integers(0, 11))} for _ in range(n)]
    return {'steps': steps}


def strategy(tier):
    return cases(tier)


# ------------------------------------------------------------------ snapshots through public accessors

def snap_graph(g):
    return ('graph',
            tuple((v.id if isinstance(v.id, str) else ('#', id(v)), v.label.name) for v in g.nodes()),
            tuple((e.id if isinstance(e.id, str) else ('#', id(e)), e.label.name, e.label.is_terminal, tuple(l.name for l in e.label.type),
                   tuple(v.id if isinstance(v.id, str) else ('#', id(v)) for v in e.nodes)) for e in g.edges()),
            tuple(v.id if isinstance(v.id, str) else ('#', id(v)) for v in g.ext),
            tuple(sorted(l.name for l in g.node_labels())),
            tuple(sorted((l.name, l.is_terminal, tuple(x.name for x in l.type)) for l in g.edge_labels())),
            str(g) if all(isinstance(v.id, str) for v in g.nodes()) and all(isinstance(e.id, str) for e in g.edges()) else None)


def snap_interp(o):
    doms = tuple(sorted((n, repr(d.to_json())) for n, d in o.domains.items()))
    facs = tuple(sorted((n, repr(f.weights.to_dense().tolist()), tuple(repr(d.to_json()) for d in f.domains)) for n, f in o.factors.items()))
    return doms, facs


def snap_hrg(h):
    return ('hrg', h.start.name if h.start is not None else None,
            tuple(sorted(l.name for l in h.node_labels())),
            tuple(sorted((l.name, l.is_terminal, tuple(x.name for x in l.type)) for l in h.edge_labels())),
            tuple((r.lhs.name, snap_graph(r.rhs)) for r in h.all_rules()),
            tuple(sorted((nt.name, len(h.rules(nt))) for nt in h.nonterminals())))


def snapshot(o):
    import fggs
    if isinstance(o, fggs.FGG): return ('fgg', snap_hrg(o), snap_interp(o))
    if isinstance(o, fggs.HRG): return snap_hrg(o)
    if isinstance(o, fggs.FactorGraph): return ('fg', snap_graph(o), snap_interp(o))
    return snap_graph(o)


def structural_key(s):
    """the part of a snapshot that == must distinguish: nodes, edges, externals, rules, start.
    Graph.__eq__ compares the id -> node and id -> edge dictionaries and HRG.__eq__ the lhs -> rule-list dictionary, so the
    order in which nodes, edges or left-hand sides were inserted is NOT part of the key (the order of the externals and of the
    rules of one left-hand side is)."""
    def gkey(nodes, edges, ext): return (tuple(sorted(nodes, key=repr)), tuple(sorted(edges, key=repr)), ext)
    if s[0] == 'graph': return ('graph',) + gkey(s[1], s[2], s[3])
    if s[0] == 'fg': return ('graph',) + gkey(*s[1][1:4])
    if s[0] == 'hrg':
        by_lhs = {}
        for lhs, g in s[4]: by_lhs.setdefault(lhs, []).append(gkey(g[1], g[2], g[3]))
        return ('hrg', s[1], tuple(sorted((lhs, tuple(rs)) for lhs, rs in by_lhs.items())))
    if s[0] == 'fgg': return structural_key(s[1])
    raise ValueError(s[0])


def graph_problems(g, what):
    probs = []
    nodes = list(g.nodes()); edges = list(g.edges())
    def member(v): return any(v is u or v == u for u in nodes)
    for e in edges:
        for v in e.nodes:
            if not member(v): probs.append(f'{what}: edge {e.id} attached to {v}, which is not a node of the graph')
        if tuple(e.label.type) != tuple(v.label for v in e.nodes):
            probs.append(f'{what}: edge {e.id} labelled {e.label.name} of type {[l.name for l in e.label.type]} attached to nodes labelled {[v.label.name for v in e.nodes]}')
    for v in g.ext:
        if not member(v): probs.append(f'{what}: external node {v} is not a node of the graph')
    if len({v.id for v in nodes}) != len(nodes): probs.append(f'{what}: duplicate node ids')
    if len({e.id for e in edges}) != len(edges): probs.append(f'{what}: duplicate edge ids')
    by_name = {}
    for l in list(g.edge_labels()) + [e.label for e in edges]:
        if l.name in by_name and by_name[l.name] != l: probs.append(f'{what}: edge-label name {l.name} denotes two labels')
        by_name[l.name] = l
    for v in nodes:
        if not g.has_node_label_name(v.label.name): probs.append(f'{what}: label of node {v} not in node_labels()')
    for e in edges:
        if not g.has_edge_label_name(e.label.name): probs.append(f'{what}: label of edge {e.id} not in edge_labels()')
    return probs


def problems(o, what):
    import fggs
    if isinstance(o, fggs.HRG):
        probs = []
        by_name = {}
        for l in o.edge_labels():
            if l.name in by_name and by_name[l.name] != l: probs.append(f'{what}: edge-label name {l.name} denotes two labels')
            by_name[l.name] = l
        if o.start is not None:
            if o.start.is_terminal: probs.append(f'{what}: terminal start symbol')
            if by_name.get(o.start.name) != o.start: probs.append(f'{what}: start symbol not in the label table')
        for r in o.all_rules():
            if tuple(r.lhs.type) != tuple(r.rhs.type): probs.append(f'{what}: rule {r.lhs.name}: lhs type differs from rhs type')
            if r.lhs.is_terminal: probs.append(f'{what}: terminal left-hand side')
            probs += graph_problems(r.rhs, what + ' rule rhs')
            for l in [r.lhs] + [e.label for e in r.rhs.edges()]:
                if by_name.get(l.name) != l: probs.append(f'{what}: label {l.name} of a rule differs from / is missing in the grammar\'s label table')
            for v in r.rhs.nodes():
                if not o.has_node_label_name(v.label.name): probs.append(f'{what}: node label {v.label.name} missing from the grammar\'s table')
    else:
        probs = graph_problems(o, what)
    if isinstance(o, (fggs.FGG, fggs.FactorGraph)):
        for n, f in o.factors.items():
            if not o.has_edge_label_name(n): probs.append(f'{what}: factor bound to unknown label {n}'); continue
            el = o.get_edge_label(n)
            if el.is_nonterminal: probs.append(f'{what}: factor bound to nonterminal {n}')
            if f.arity != el.arity: probs.append(f'{what}: factor {n} arity {f.arity} != label arity {el.arity}')
            for nl, d in zip(el.type, f.domains):
                if nl.name not in o.domains or o.domains[nl.name] != d: probs.append(f'{what}: factor {n} domain mismatch at {nl.name}')
        for n in o.domains:
            if not o.has_node_label_name(n): probs.append(f'{what}: domain bound to unknown node label {n}')
    return probs


# ------------------------------------------------------------------ interpreter

def check(case, ctx):
    import torch, fggs
    from fggs.domains import FiniteDomain, RangeDomain
    nl = {n: fggs.NodeLabel(n) for n in NL}
    def el(name, k):
        typ, term = EL_VARIANTS[name][k % len(EL_VARIANTS[name])]
        return fggs.EdgeLabel(name, [nl[x] for x in typ], is_terminal=term, is_nonterminal=not term)
    DOMS = [FiniteDomain(['x', 'y']), RangeDomain(3), FiniteDomain(['x', 'y', 'z'])]
    pool = [fggs.Graph(), fggs.HRG(fggs.EdgeLabel('S', [], is_nonterminal=True))]
    # two objects that already carry an interpretation, so that histories with bound factors are common
    try:
        f0 = fggs.FGG(fggs.EdgeLabel('S', [], is_nonterminal=True))
        f0.add_domain(nl['A'], DOMS[0]); f0.add_domain(nl['B'], DOMS[1])
        f0.add_factor(el('f', 1), fggs.FiniteFactor([DOMS[0], DOMS[1]], torch.full([2, 3], 0.25)))
        g0 = fggs.FactorGraph()
        g0.add_domain(nl['B'], DOMS[1])
        v0 = g0.new_node('B', id='v1')
        g0.add_edge(fggs.Edge(el('g', 0), [v0, v0], id='e1'))
        g0.add_factor(el('g', 0), fggs.FiniteFactor([DOMS[1], DOMS[1]], torch.full([3, 3], 2.0)))
        pool += [f0, g0]
    except Exception as e:
        ctx.violation('setup-failed', f'{type(e).__name__}: {e}'); return
    frozen = set()           # ids of Graph objects shared with a rule
    keep = []                # keep every object alive (id()-based identities in snapshots)
    accepted = 0
    nontrivial = False
    copied = set()           # ids of objects that are a copy or have been copied
    is_graph = lambda o: isinstance(o, fggs.Graph)
    is_hrg = lambda o: isinstance(o, fggs.HRG)
    is_interp = lambda o: isinstance(o, (fggs.FGG, fggs.FactorGraph))

    def pick(pred, i):
        c = [o for o in pool if pred(o)]
        return c[i % len(c)] if c else None

    def node_arg(g, a, b):
        """an existing node of g, or a new Node (explicit or implicit id)"""
        nodes = list(g.nodes())
        if nodes and a % 3 != 0:
            return nodes[b % len(nodes)]
        return fggs.Node(nl[NL[b % 3]], id=NODE_IDS[a % len(NODE_IDS)])

    for si, step in enumerate(case['steps']):
        op, a, b, c, d = step['op'], step['a'], step['b'], step['c'], step['d']
        target = None
        call = None
        new_obj = None
        # ---------------- choose target and build the call
        if op in ('add_node', 'new_node', 'remove_node', 'add_edge', 'new_edge', 'remove_edge', 'set_ext', 'remove_twin_node',
                  'remove_twin_edge', 'set_ext_twin', 'add_edge_twin_node', 'add_edge_clash_in_call', 'set_ext_clash_in_call', 'add_edge_wrong_arity'):
            g = pick(lambda o: is_graph(o) and id(o) not in frozen, step['o'])
            if g is None: continue
            target = g
            nodes = list(g.nodes()); edges = list(g.edges())
            if op == 'add_node':
                v = fggs.Node(nl[NL[a % 3]], id=NODE_IDS[b % len(NODE_IDS)]); keep.append(v)
                call = lambda: g.add_node(v)
            elif op == 'new_node':
                call = lambda: g.new_node(NL[a % 3], id=NODE_IDS[b % len(NODE_IDS)])
            elif op == 'remove_node':
                if not nodes: continue
                v = nodes[a % len(nodes)]
                call = lambda: g.remove_node(v)
            elif op == 'remove_twin_node':
                if not nodes: continue
                v0 = nodes[a % len(nodes)]
                if not isinstance(v0.id, str): continue
                v = fggs.Node(nl[[x for x in NL if x != v0.label.name][b % 2]], id=v0.id); keep.append(v)
                ctx.label('twin-node')
                call = lambda: g.remove_node(v)
            elif op in ('add_edge', 'add_edge_twin_node'):
                lab = el(EL_NAMES[a % 4], b)
                att = []
                for k, t in enumerate(lab.type):
                    cands = [v for v in nodes if v.label == t]
                    if op == 'add_edge_twin_node' and nodes and k == 0:
                        v0 = nodes[c % len(nodes)]
                        if isinstance(v0.id, str) and v0.label != t:
                            att.append(fggs.Node(t, id=v0.id)); ctx.label('twin-node'); continue     # right label, id of another node
                    if cands and (c + k) % 4 != 0: att.append(cands[(d + k) % len(cands)])
                    elif (c + k) % 8 == 4 and nodes: att.append(nodes[d % len(nodes)])            # possibly wrong label
                    else: att.append(fggs.Node(t, id=NODE_IDS[(d + k) % len(NODE_IDS)]))
                keep.extend(att)
                eid = EDGE_IDS[d % len(EDGE_IDS)]
                def call(lab=lab, att=att, eid=eid):
                    e = fggs.Edge(lab, att, id=eid); keep.append(e)
                    g.add_edge(e)
            elif op == 'new_edge':
                name = EL_NAMES[a % 4]
                typ, term = EL_VARIANTS[name][b % 3]
                att = [node_arg(g, c + k, d + k) for k in range(len(typ))]
                keep.extend(att)
                call = lambda: g.new_edge(name, att, is_terminal=term, is_nonterminal=not term, id=EDGE_IDS[c % len(EDGE_IDS)])
            elif op == 'remove_edge':
                if not edges: continue
                e = edges[a % len(edges)]
                call = lambda: g.remove_edge(e)
            elif op == 'remove_twin_edge':
                if not edges: continue
                e0 = edges[a % len(edges)]
                if not isinstance(e0.id, str): continue
                lab = el(EL_NAMES[b % 4], c)
                try:
                    e = fggs.Edge(lab, [fggs.Node(t) for t in lab.type], id=e0.id)
                except Exception:
                    continue
                if e == e0: continue
                keep.append(e); ctx.label('twin-edge')
                call = lambda: g.remove_edge(e)
            elif op == 'set_ext':
                k = a % 4
                ext = [node_arg(g, b + i, c + i) for i in range(k)]
                keep.extend(ext)
                call = (lambda: setattr(g, 'ext', ext)) if d % 2 else (lambda: setattr(g, 'ext', tuple(ext)))
            elif op == 'add_edge_wrong_arity':
                # an Edge whose attachment nodes are a proper prefix of / longer than its label's type (labels right where both exist)
                lab = el(EL_NAMES[a % 4], b)
                att = []
                for k, t in enumerate(lab.type):
                    cands = [v for v in nodes if v.label == t]
                    att.append(cands[(d + k) % len(cands)] if cands and (c + k) % 3 else fggs.Node(t, id=NODE_IDS[(d + k) % len(NODE_IDS)]))
                if c % 2 and att: att = att[:-1 - (d % len(att)) if len(att) > 1 and d % 2 else -1]
                else: att = att + [nodes[d % len(nodes)] if nodes and d % 2 else fggs.Node(nl[NL[b % 3]], id=NODE_IDS[(c + d) % len(NODE_IDS)])]
                keep.extend(att); ctx.label('wrong-arity-edge')
                eid = EDGE_IDS[(c + d) % len(EDGE_IDS)]
                def call(lab=lab, att=att, eid=eid):
                    e = fggs.Edge(lab, att, id=eid); keep.append(e)
                    g.add_edge(e)
            elif op in ('add_edge_clash_in_call', 'set_ext_clash_in_call'):
                # two different new nodes (same id, different labels) brought in by ONE call: the clash is among the arguments,
                # not with a node already present
                nid = NODE_IDS[d % len(NODE_IDS)]
                if op == 'set_ext_clash_in_call':
                    la, lb = NL[a % 3], NL[(a + 1 + b % 2) % 3]
                    ext = [fggs.Node(nl[la], id=nid), fggs.Node(nl[lb], id=nid)]
                    if c % 3 == 0 and nodes: ext.insert(c % 2, nodes[c % len(nodes)])
                    keep.extend(ext); ctx.label('clash-within-call')
                    call = lambda: setattr(g, 'ext', ext)
                else:
                    lab = None
                    for t in range(4):
                        cand = el(EL_NAMES[(a + t) % 4], b)
                        if len({x.name for x in cand.type}) >= 2: lab = cand; break
                    if lab is None: continue
                    att = [fggs.Node(t, id=nid) for t in lab.type]
                    keep.extend(att); ctx.label('clash-within-call')
                    eid = EDGE_IDS[c % len(EDGE_IDS)]
                    def call(lab=lab, att=att, eid=eid):
                        e = fggs.Edge(lab, att, id=eid); keep.append(e)
                        g.add_edge(e)
            elif op == 'set_ext_twin':
                if not nodes: continue
                v0 = nodes[a % len(nodes)]
                if not isinstance(v0.id, str): continue
                v = fggs.Node(nl[[x for x in NL if x != v0.label.name][b % 2]], id=v0.id); keep.append(v)
                ctx.label('twin-node')
                call = lambda: setattr(g, 'ext', [v])
        elif op == 'copy':
            o = pool[step['o'] % len(pool)]
            target = None
            def call(o=o):
                nonlocal new_obj
                new_obj = o.copy()
                return new_obj
        elif op in ('new_graph', 'new_factorgraph', 'new_hrg', 'new_fgg'):
            if len(pool) >= 7: continue
            def call():
                nonlocal new_obj
                if op == 'new_graph': new_obj = fggs.Graph()
                elif op == 'new_factorgraph': new_obj = fggs.FactorGraph()
                else:
                    cls = fggs.HRG if op == 'new_hrg' else fggs.FGG
                    start = [el('X', a), el('Y', a), 'S', el('f', a), el('g', a)][b % 5]       # may be a terminal: must be rejected
                    new_obj = cls(start)
                return new_obj
        elif op in ('add_rule', 'new_rule'):
            h = pick(is_hrg, step['o']); g = pick(lambda o: is_graph(o) and not is_interp(o), a)
            if h is None or g is None: continue
            target = h
            if op == 'add_rule':
                lhs = [el('X', b), el('Y', b), el('f', b), h.start][c % 4]
                def call(lhs=lhs, g=g):
                    r = fggs.HRGRule(lhs, g)
                    frozen.add(id(g))
                    h.add_rule(r)
            else:
                name = ['X', 'Y', 'S', 'f'][b % 4]
                def call(name=name, g=g):
                    frozen.add(id(g))
                    h.new_rule(name, g)
        elif op == 'set_start':
            h = pick(is_hrg, step['o'])
            if h is None: continue
            target = h
            start = [el('X', a), el('Y', a), 'S', 'X', el('f', a), 'f', 'Z'][b % 7]
            call = lambda: setattr(h, 'start', start)
        elif op == 'add_node_label':
            o = pick(lambda o: id(o) not in frozen, step['o']); target = o
            if o is None: continue
            call = lambda: o.add_node_label(nl[NL[a % 3]])
        elif op == 'add_edge_label':
            o = pick(lambda o: id(o) not in frozen, step['o']); target = o
            if o is None: continue
            lab = el(EL_NAMES[a % 4], b)
            call = lambda: o.add_edge_label(lab)
        elif op in ('add_domain', 'new_finite_domain', 'add_factor', 'new_finite_factor'):
            o = pick(is_interp, step['o'])
            if o is None: continue
            target = o
            if op == 'add_domain':
                call = lambda: o.add_domain(nl[NL[a % 3]], DOMS[b % 3])
            elif op == 'new_finite_domain':
                call = lambda: o.new_finite_domain(NL[a % 3], [['x', 'y'], ['p'], ['x', 'y', 'z']][b % 3])
            else:
                name = EL_NAMES[a % 4]
                lab = el(name, b)
                doms = [DOMS[(c + k) % 3] if d % 3 == 0 else o.domains.get(t.name, DOMS[(c + k) % 3]) for k, t in enumerate(lab.type)]
                if d % 5 == 4 and doms: doms = doms[:-1]
                shape = [x.size() for x in doms]
                if op == 'add_factor':
                    def call(lab=lab, doms=doms, shape=shape):
                        f = fggs.FiniteFactor(doms, torch.full(shape, 0.5 + a))
                        o.add_factor(lab, f)
                else:
                    call = lambda: o.new_finite_factor(name, torch.full(shape, 1.5 + a))
        elif op == 'set_weights':
            o = pick(lambda o: is_interp(o) and len(o.factors) > 0, step['o'])
            if o is None: continue
            target = o
            name = sorted(o.factors)[a % len(o.factors)]
            fac = o.factors[name]
            shape = [x.size() for x in fac.domains]
            if b % 4 == 0: shape = shape + [2]                       # wrong shape: must be rejected, factor unchanged
            if c % 2:
                call = lambda: setattr(fac, 'weights', torch.full(shape, 7.0 + d))
            else:
                def call(fac=fac, shape=shape):
                    if b % 4 == 0: raise ValueError('skip')
                    fac.weights.physical.mul_(2.0)                    # in-place change of the weight tensor
            ctx.label('weights-changed')
        elif op in ('from_graph', 'from_hrg'):
            if len(pool) >= 7: continue
            src = pick((lambda o: is_graph(o)) if op == 'from_graph' else is_hrg, step['o'])
            if src is None: continue
            def call(src=src):
                nonlocal new_obj
                new_obj = fggs.FactorGraph.from_graph(src) if op == 'from_graph' else fggs.FGG.from_hrg(src)
                if op == 'from_hrg':
                    for r in src.all_rules(): frozen.add(id(r.rhs))
                return new_obj
        if call is None: continue
        # ---------------- execute with snapshots of every live object
        before = [snapshot(o) for o in pool]
        frozen_before = set(frozen)
        raised = None
        try:
            call()
        except (ValueError, TypeError, KeyError, Exception) as e:
            raised = e
        after = [snapshot(o) for o in pool]
        what = f'step {si} {op}'
        if raised is not None:
            frozen.clear(); frozen.update(frozen_before)
            new_obj = None
            ctx.label('rejected-call', 'label-conflict' if 'already an edge label' in str(raised) else None)
            if accepted >= 3: nontrivial = True
            for o, b_, a_ in zip(pool, before, after):
                ctx.require(b_ == a_, 'failed-call-changed-object', f'{what} raised {type(raised).__name__}: {raised}; object {type(o).__name__} changed from {b_} to {a_}'[:1500], op=op)
        else:
            accepted += 1
            for o, b_, a_ in zip(pool, before, after):
                if o is target: continue
                if is_hrg(target) is False and False: pass
                ctx.require(b_ == a_, 'other-object-changed', f'{what} on {type(target).__name__ if target is not None else "-"} changed another object ({type(o).__name__}): {b_} -> {a_}'[:1500], op=op)
            if target is not None and id(target) in copied and before[pool.index(target)] != after[pool.index(target)]:
                ctx.label('copy-then-mutate'); nontrivial = True
            if op in ('add_rule', 'new_rule'): ctx.label('rule-added')
            if op in ('add_factor', 'new_finite_factor'): ctx.label('factor-bound')
        if new_obj is not None:
            if op == 'copy':
                src = pool[step['o'] % len(pool)]
                s1, s2 = snapshot(src), snapshot(new_obj)
                ctx.require(type(new_obj) is type(src), 'copy-type', what)
                ctx.require(s1 == s2, 'copy-differs', f'{what}: copy {s2} differs from original {s1}'[:1500])
                ctx.require(new_obj == src and src == new_obj and not (new_obj != src), 'copy-not-equal', f'{what}: copy != original')
                ctx.require(new_obj is not src, 'copy-is-same-object', what)
                copied.add(id(src)); copied.add(id(new_obj))
                if is_hrg(new_obj):
                    ctx.require(all(r1.rhs is not r2.rhs for r1, r2 in zip(src.all_rules(), new_obj.all_rules())), 'copy-shares-rhs', what)
                    for r in new_obj.all_rules(): frozen.add(id(r.rhs))
            pool.append(new_obj)
        # ---------------- invariants of every live object
        for o in pool:
            probs = problems(o, f'{what}: {type(o).__name__}')
            if probs:
                ctx.violation('invariant', probs[0][:800], op=op, raised=raised is not None)
                ctx.nontrivial = nontrivial
                return
        # ---------------- equality is an equivalence that separates structurally different objects
        snaps = [snapshot(o) for o in pool]
        for i, x in enumerate(pool):
            if not ctx.require(x == x and not (x != x), 'eq-not-reflexive', f'{what}: {type(x).__name__}'): return
            for j, y in enumerate(pool):
                if j <= i: continue
                e1, e2 = (x == y), (y == x)
                if not ctx.require(e1 == e2, 'eq-not-symmetric', f'{what}: {type(x).__name__} vs {type(y).__name__}'): return
                comparable = (is_graph(x) and is_graph(y)) or (is_hrg(x) and is_hrg(y))
                if comparable and structural_key(snaps[i]) != structural_key(snaps[j]):
                    if not ctx.require(not e1, 'eq-ignores-difference', f'{what}: objects with snapshots {snaps[i]} and {snaps[j]} compare equal'[:1500]): return
                if not comparable:
                    ctx.require(not e1, 'eq-across-kinds', f'{what}: a graph equals a grammar')
        n = len(pool)
        for i, j, k in itertools.combinations(range(n), 3):
            if pool[i] == pool[j] and pool[j] == pool[k]:
                if not ctx.require(pool[i] == pool[k], 'eq-not-transitive', what): return
    ctx.nontrivial = nontrivial


def route(case, v):
    return None


def selfcheck():
    pass
