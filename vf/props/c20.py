"""C20  Domains and factors index consistently and reject ill-shaped bindings."""
from __future__ import annotations
import copy, itertools, math
import numpy as np
from hypothesis import strategies as st
from .. import gen_pattern as gp

ID = 'C20'
RULE = ("(domain) FiniteDomain over 0-6 pairwise-distinct hashable values (ints, strings, floats, tuples) and RangeDomain of size 0-6: "
        "numberize/denumberize inverse bijections, contains on members and non-members, equality by class and content, also after the list the domain was built from has been mutated by the caller. (factor) "
        "FiniteFactor over 0-3 domains with weights given as nested lists, Tensor or typed PatternedTensor, of the right shape or a wrong "
        "one (one size off, permuted, extra/missing dimension, ragged list): accepted iff the shape is the tuple of sizes; apply(values) = "
        "dense entry at the numberized position; equality by domains and dense weights (another pattern of the same tensor is equal, a "
        "perturbed one is not). (binding) add_factor / new_finite_factor / add_domain / shape on FGG and FactorGraph with matching and "
        "mismatching arity, domain (at any position, also of a node label repeated in the type), terminality, already-bound labels: accepted iff legal, otherwise ValueError/KeyError and the binding "
        "tables unchanged. non-trivial = arity >= 2 with two different domain sizes, or a rejected binding; distinct by case hash")
ASSUMPTIONS = ["a domain is a value: mutating the list passed to FiniteDomain afterwards does not change the domain (the constructor copies)", "RangeDomain.contains is asked about integers only", "values are distinct under Python equality (1, 1.0 and True are one value)",
               "a rejected FiniteFactor construction may raise ValueError, TypeError or RuntimeError (torch's own message for ragged lists)"]
ESSENTIAL_LABELS = ['mode:domain', 'mode:factor', 'mode:binding', 'wrong-shape', 'patterned-weights', 'rebind', 'size0', 'size1', 'repeated-node-label', 'source-list-mutated']

VALS = [0, 1, 2, -1, 7, 'a', 'b', '', 'NNS', 0.5, 2.5, -0.0 + 3.25, ('x', 1), ('x', 2), (), 'BOS', 10, 11]


def budget(tier):
    return {'examples': 2400 if tier == 'quick' else 50000, 'shrink_calls': 300}


def tj(v):
    return {'t': [tj(x) for x in v]} if isinstance(v, tuple) else v


def fj(v):
    return tuple(fj(x) for x in v['t']) if isinstance(v, dict) else v


@st.composite
def value_lists(draw, max_size=6):
    n = draw(st.integers(0, max_size))
    vals = draw(st.lists(st.sampled_from(VALS), min_size=n, max_size=n, unique_by=lambda v: (v,)))
    return [tj(v) for v in vals]


@st.composite
def domain_specs(draw, max_size=6):
    if draw(st.integers(0, 3)) == 0:
        return {'range': draw(st.integers(0, max_size))}
    return {'values': draw(value_lists(max_size))}


def dom_size(d):
    return d['range'] if 'range' in d else len(d['values'])


@st.composite
def cases(draw, tier):
    mode = draw(st.sampled_from(['domain', 'factor', 'factor', 'binding', 'binding']))
    if mode == 'domain':
        d1 = draw(domain_specs())
        rel = draw(st.sampled_from(['independent', 'independent', 'permuted', 'same', 'prefix']))
        if rel == 'independent' or 'range' in d1:
            d2 = draw(domain_specs())
        elif rel == 'permuted':
            d2 = {'values': list(draw(st.permutations(d1['values'])))}      # same values, other numbering: a different domain
        elif rel == 'same':
            d2 = {'values': list(d1['values'])}
        else:
            d2 = {'values': list(d1['values'][:-1])}
        return {'mode': 'domain', 'mutate_src': draw(st.booleans()), 'd1': d1, 'd2': d2, 'probe': [tj(draw(st.sampled_from(VALS))) for _ in range(4)],
                'iprobe': [draw(st.integers(-2, 8)) for _ in range(3)]}
    ar = draw(st.sampled_from([0, 1, 2, 2, 3]))
    doms = [draw(domain_specs(3 if ar == 3 else 4)) for _ in range(ar)]
    # repeated node labels in the edge label's type, e.g. (A, A, B): positions that share a label share its domain
    label_of = list(range(ar))
    if ar >= 2 and draw(st.integers(0, 2)) == 0:
        j = draw(st.integers(1, ar - 1)); i = draw(st.integers(0, j - 1))
        label_of[j] = label_of[i]; doms[j] = copy.deepcopy(doms[i])
        if ar == 3 and draw(st.booleans()):
            label_of = [0, 0, 0]; doms = [copy.deepcopy(doms[0]) for _ in range(3)]
    sizes = [dom_size(d) for d in doms]
    wrong = draw(st.sampled_from(['ok', 'ok', 'ok', 'off-by-one', 'permuted', 'extra-dim', 'missing-dim', 'ragged']))
    form = draw(st.sampled_from(['list', 'tensor', 'patterned']))
    shape = list(sizes)
    if wrong == 'off-by-one' and ar: shape[draw(st.integers(0, ar - 1))] += draw(st.sampled_from([1, -1]))
    elif wrong == 'permuted' and ar >= 2: shape = shape[1:] + shape[:1]
    elif wrong == 'extra-dim': shape = shape + [draw(st.integers(1, 2))]
    elif wrong == 'missing-dim' and ar: shape = shape[:-1]
    shape = [max(0, s) for s in shape]
    tys = [['atom', s] for s in shape]
    pat = draw(gp.tensor_specs(tys, values=(0.0, 1.0, 2.0, 0.5, 7.0, math.inf), defaults=(0.0, 1.0), force_dense=(form != 'patterned')))
    pat2 = draw(gp.tensor_specs(tys, values=(0.0,), defaults=(0.0,), p_bcast=0.0))     # a second pattern for the equality clause
    c = {'mode': mode, 'doms': doms, 'label_of': label_of, 'wrong': wrong, 'form': form, 'w': pat, 'w2pat': pat2,
         'apply': [draw(st.integers(0, 5)) for _ in range(3)], 'perturb': draw(st.booleans())}
    if mode == 'binding':
        c['scenario'] = draw(st.sampled_from(['ok', 'ok', 'arity', 'domain-differs', 'nonterminal', 'rebind', 'rebind-new', 'domain-rebind', 'unknown-label', 'unmapped-nodelabel']))
        c['container'] = draw(st.sampled_from(['fgg', 'factorgraph']))
    return c


def strategy(tier):
    return cases(tier)


def mk_domain(d, mutate_src=False):
    from fggs.domains import FiniteDomain, RangeDomain
    if 'range' in d: return RangeDomain(d['range'])
    src = [fj(v) for v in d['values']]
    dom = FiniteDomain(src)
    if mutate_src:
        # a domain is a value: the caller's list (e.g. a vocabulary that keeps growing) may change afterwards
        src.reverse(); src.append('__added_later__'); src[:1] = []
    return dom


def check(case, ctx):
    ctx.label('mode:' + case['mode'])
    if case['mode'] == 'domain': return check_domain(case, ctx)
    if case['mode'] == 'factor': return check_factor(case, ctx)
    return check_binding(case, ctx)


def check_domain(case, ctx):
    from fggs.domains import FiniteDomain, RangeDomain
    ds = []
    for d in (case['d1'], case['d2']):
        dom = ctx.call('Domain()', mk_domain, d, bool(case.get('mutate_src')))
        ds.append(dom)
        n = dom_size(d)
        ctx.label('size0' if n == 0 else None, 'size1' if n == 1 else None, 'range' if 'range' in d else 'finite')
        ctx.require(ctx.call('size', dom.size) == n, 'size-wrong', f'{d}')
        vals = list(range(n)) if 'range' in d else [fj(v) for v in d['values']]
        for i, v in enumerate(vals):
            ctx.require(ctx.call('numberize', dom.numberize, v) == i, 'numberize-wrong', f'{d}: numberize({v!r}) != {i}')
            dv = ctx.call('denumberize', dom.denumberize, i)
            ctx.require(dv == v and type(dv) == type(v), 'denumberize-wrong', f'{d}: denumberize({i}) = {dv!r} != {v!r}')
            ctx.require(ctx.call('contains', dom.contains, v) is True or dom.contains(v) == True, 'contains-wrong', f'{d}: member {v!r} not contained')
        if 'range' in d:
            for p in case['iprobe']:
                ctx.require(bool(ctx.call('contains', dom.contains, p)) == (0 <= p < n), 'contains-wrong', f'range {n}: contains({p})')
        else:
            for p in case['probe']:
                p = fj(p)
                ctx.require(bool(ctx.call('contains', dom.contains, p)) == any(p == v for v in vals), 'contains-wrong', f'{d}: contains({p!r})')
            ctx.require(len({dom.numberize(v) for v in vals}) == n, 'numberize-not-injective', f'{d}')
        j = ctx.call('to_json', dom.to_json)
        ctx.require(j == ({'class': 'range', 'size': n} if 'range' in d else {'class': 'finite', 'values': vals}), 'to_json-wrong', f'{j}')
    same = (('range' in case['d1']) == ('range' in case['d2'])) and \
           (case['d1'].get('range') == case['d2'].get('range') if 'range' in case['d1'] else [fj(v) for v in case['d1']['values']] == [fj(v) for v in case['d2']['values']])
    ctx.require((ds[0] == ds[1]) == same and (ds[0] != ds[1]) == (not same) and (ds[1] == ds[0]) == same, 'domain-equality-wrong', f'{case["d1"]} vs {case["d2"]}: == gives {ds[0] == ds[1]}, expected {same}')
    ctx.require(ds[0] == mk_domain(case['d1']) and not (ds[0] != mk_domain(case['d1'])), 'domain-equality-wrong', 'a domain differs from an identical copy')
    ctx.label('equal-domains' if same else 'different-domains', 'source-list-mutated' if case.get('mutate_src') else None)
    ctx.nontrivial = dom_size(case['d1']) >= 2


def weights_arg(case, ctx):
    """(argument to pass as weights, its dense numpy value or None if ragged)"""
    import torch
    w = case['w']
    dense = gp.dense_of(w)
    if case['wrong'] == 'ragged' and dense.ndim >= 1 and dense.shape[0] >= 2 and dense.size > 0:
        lst = dense.tolist()
        lst[-1] = (lst[-1] + [1.0]) if isinstance(lst[-1], list) else [lst[-1]]
        return lst, None
    if case['form'] == 'list' and 0 not in dense.shape: return dense.tolist(), dense     # a nested list cannot express a shape containing 0
    if case['form'] == 'list': return torch.tensor(dense), dense
    if case['form'] == 'tensor': return torch.tensor(dense), dense
    return gp.build_pt(w), dense


def check_factor(case, ctx):
    import torch
    from fggs.factors import FiniteFactor
    doms = [ctx.call('Domain()', mk_domain, d) for d in case['doms']]
    sizes = tuple(dom_size(d) for d in case['doms'])
    arg, dense = weights_arg(case, ctx)
    legal = dense is not None and tuple(dense.shape) == sizes
    ctx.label('wrong-shape' if not legal else None, 'form:' + case['form'], 'patterned-weights' if case['form'] == 'patterned' and gp.is_structured(case['w']) else None,
              'size0' if 0 in sizes else None, 'size1' if 1 in sizes else None)
    if not legal:
        ctx.expect_raises(f'FiniteFactor(wrong shape: {case["wrong"]})', (ValueError, TypeError, RuntimeError), FiniteFactor, doms, arg)
        ctx.nontrivial = True
        return
    fac = ctx.call('FiniteFactor', FiniteFactor, doms, arg)
    ctx.require(fac.arity == len(doms) and tuple(fac.domains) == tuple(doms), 'factor-domains-wrong', '')
    wd = ctx.call('weights.to_dense', fac.weights.to_dense).numpy()
    ctx.require(wd.shape == dense.shape and np.array_equal(wd, dense), 'weights-changed', f'{wd.tolist()} vs {dense.tolist()}')
    # apply
    if all(s > 0 for s in sizes):
        idx = tuple(case['apply'][k % len(case['apply'])] % sizes[k] for k in range(len(sizes)))
        values = [d.denumberize(i) for d, i in zip(doms, idx)]
        got = ctx.call('apply', fac.apply, values)
        ctx.require(float(got) == float(dense[idx]) if idx else float(got) == float(dense), 'apply-wrong', f'apply({values}) = {float(got)}, weight at {idx} is {float(dense[idx]) if idx else float(dense)}')
    # equality: by domains and dense weights
    same_again = ctx.call('FiniteFactor', FiniteFactor, [mk_domain(d) for d in case['doms']], torch.tensor(dense))
    ctx.require(fac == same_again and same_again == fac and not (fac != same_again), 'factor-equality-wrong', 'factor differs from a factor with equal domains and equal dense weights')
    # another pattern of the same tensor (supports must cover the non-default entries: use a dense second pattern re-gathered)
    p2 = dict(case['w2pat'])
    M = gp.support_mask(p2)
    masked = np.where(M, dense, p2['default'])
    from .c13 import gather
    p2 = dict(p2, phys=[float(v) for v in gather(masked, p2)])
    other = ctx.call('FiniteFactor', FiniteFactor, [mk_domain(d) for d in case['doms']], gp.build_pt(p2))
    want = bool(np.array_equal(masked, dense))
    ctx.require((fac == other) == want and (other == fac) == want, 'factor-equality-wrong',
                f'factor with weights {dense.tolist()} vs re-patterned {masked.tolist()}: == gives {fac == other}, dense equality is {want}')
    if case['perturb'] and dense.size > 0:
        pert = dense.copy(); pert.reshape(-1)[case['apply'][0] % dense.size] += 1.0
        if not np.array_equal(pert, dense):
            f3 = FiniteFactor([mk_domain(d) for d in case['doms']], torch.tensor(pert))
            ctx.require(not (fac == f3) and fac != f3, 'factor-equality-wrong', 'factors with different weights compare equal')
    if doms:
        from fggs.domains import RangeDomain
        doms2 = list(doms[:-1]) + [RangeDomain(sizes[-1] ) if not isinstance(doms[-1], RangeDomain) else mk_domain({'values': list(range(100, 100 + sizes[-1]))})]
        f4 = FiniteFactor(doms2, torch.tensor(dense))
        ctx.require(not (fac == f4), 'factor-equality-wrong', 'factors over different domains (same sizes) compare equal')
    j = ctx.call('to_json', fac.to_json)
    ctx.require(j['function'] == 'finite' and np.array_equal(np.array(j['weights'], dtype=float).reshape(dense.shape), dense), 'factor-to_json-wrong', f'{j}')
    ctx.nontrivial = len(sizes) >= 2 and len(set(sizes)) >= 2


def tables(c):
    return (dict(c.domains), dict(c.factors), sorted(nl.name for nl in c.node_labels()), sorted((el.name, el.is_terminal, tuple(n.name for n in el.type)) for el in c.edge_labels()))


def check_binding(case, ctx):
    import torch, fggs
    from fggs.factors import FiniteFactor
    from fggs.domains import RangeDomain, FiniteDomain
    sc = case['scenario']
    doms = [mk_domain(d) for d in case['doms']]
    sizes = tuple(dom_size(d) for d in case['doms'])
    ar = len(doms)
    arg, dense = weights_arg(case, ctx)
    if dense is None or tuple(dense.shape) != sizes:
        # an ill-shaped weight through new_finite_factor must be rejected as well, tables unchanged
        dense_ok = False
    else:
        dense_ok = True
    label_of = case.get('label_of') or list(range(ar))
    nls = [fggs.NodeLabel(f'L{label_of[i]}') for i in range(ar)]
    if len(set(label_of)) < ar: ctx.label('repeated-node-label')
    # distinct node labels may share a domain object: fine
    if case['container'] == 'fgg':
        c = fggs.FGG(fggs.EdgeLabel('S', [], is_nonterminal=True))
    else:
        c = fggs.FactorGraph()
    ctx.label('container:' + case['container'], 'scenario:' + sc)
    for i, (nl, d) in enumerate(zip(nls, doms)):
        if label_of[i] != i: continue                      # a repeated label: its domain was bound at the first occurrence
        if sc == 'unmapped-nodelabel' and nl == nls[-1]:
            c.add_node_label(nl); continue
        ctx.call('add_domain', c.add_domain, nl, d)
    el = fggs.EdgeLabel('f', nls, is_terminal=True)
    nt = fggs.EdgeLabel('X', nls, is_nonterminal=True)
    c.add_edge_label(el)
    # shape()
    if sc != 'unmapped-nodelabel':
        ctx.require(tuple(ctx.call('shape', c.shape, el)) == sizes, 'shape-wrong', f'shape(label) = {c.shape(el)} != {sizes}')
        nodes = [fggs.Node(nl) for nl in nls]
        ctx.require(tuple(c.shape(nodes)) == sizes and tuple(c.shape(nls)) == sizes and tuple(c.shape(fggs.Edge(el, nodes))) == sizes, 'shape-wrong', 'node list / label list / edge')
    if not dense_ok:
        before = tables(c)
        ctx.expect_raises('new_finite_factor(ill-shaped weights)', (ValueError, TypeError, RuntimeError) + ((KeyError,) if sc == 'unmapped-nodelabel' else ()), c.new_finite_factor, 'f', arg)
        ctx.require(tables(c) == before, 'rejected-binding-changed-tables', 'ill-shaped weights')
        ctx.label('wrong-shape'); ctx.nontrivial = True
        return
    fac = FiniteFactor(doms, arg)
    before = tables(c)
    rejected = True
    if sc == 'ok':
        rejected = False
        if case['apply'][0] % 2:
            ctx.call('add_factor', c.add_factor, el, fac)
            bound = fac
        else:
            bound = ctx.call('new_finite_factor', c.new_finite_factor, 'f', arg)
        ctx.require(c.factors.get('f') is bound, 'binding-missing', 'factor not bound under the label name')
        got = ctx.call('weights.to_dense', c.factors['f'].weights.to_dense).numpy()
        ctx.require(np.array_equal(got, dense), 'binding-weights-wrong', '')
    elif sc == 'arity':
        other = FiniteFactor(doms + [RangeDomain(2)], torch.zeros(sizes + (2,)))
        ctx.expect_raises('add_factor(wrong arity)', ValueError, c.add_factor, el, other)
        if ar >= 1:
            other = FiniteFactor(doms[:-1], torch.zeros(sizes[:-1]))
            ctx.expect_raises('add_factor(wrong arity)', ValueError, c.add_factor, el, other)
    elif sc == 'domain-differs':
        if ar == 0: ctx.skip('arity 0: no domain to differ'); return
        k = case['apply'][1] % ar
        if sizes[k] == 0: ctx.skip('empty domain: no different domain of the same size'); return
        d2 = list(doms)
        d2[k] = FiniteDomain([f'other{i}' for i in range(sizes[k])])     # same size, different values
        other = FiniteFactor(d2, torch.tensor(dense))
        ctx.expect_raises('add_factor(domain differs)', ValueError, c.add_factor, el, other)
    elif sc == 'nonterminal':
        ctx.expect_raises('add_factor(nonterminal)', ValueError, c.add_factor, nt, fac)
    elif sc in ('rebind', 'rebind-new'):
        c.add_factor(el, fac)
        before = tables(c)
        other = FiniteFactor(doms, torch.tensor(dense) + 1.0)
        if sc == 'rebind':
            ctx.expect_raises('add_factor(label already bound)', ValueError, c.add_factor, el, other)
        else:
            ctx.expect_raises('new_finite_factor(label already bound)', ValueError, c.new_finite_factor, 'f', (dense + 1.0).tolist())
        ctx.require(c.factors.get('f') is fac, 'rebind-replaced-factor', 'binding a second factor to a bound label replaced the first one')
        ctx.label('rebind')
    elif sc == 'domain-rebind':
        if ar == 0: ctx.skip('arity 0'); return
        ctx.expect_raises('add_domain(label already bound)', ValueError, c.add_domain, nls[0], RangeDomain(sizes[0] + 1))
        ctx.expect_raises('new_finite_domain(label already bound)', ValueError, c.new_finite_domain, nls[0].name, ['p', 'q'])
    elif sc == 'unknown-label':
        ctx.expect_raises('new_finite_factor(unknown label)', KeyError, c.new_finite_factor, 'no-such-label', arg)
    elif sc == 'unmapped-nodelabel':
        if ar == 0: ctx.skip('arity 0'); return
        ctx.expect_raises('add_factor(node label without domain)', (ValueError, KeyError), c.add_factor, el, fac)
        ctx.expect_raises('new_finite_factor(node label without domain)', (ValueError, KeyError), c.new_finite_factor, 'f', arg)
    if rejected:
        ctx.require(tables(c) == before, 'rejected-binding-changed-tables', f'scenario {sc}: tables before {before} after {tables(c)}')
    ctx.nontrivial = rejected or (ar >= 2 and len(set(sizes)) >= 2)


def route(case, v):
    return None


def selfcheck():
    gp.selfcheck()
