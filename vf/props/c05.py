"""C05  Factorization preserves the grammar's meaning and never widens a rule."""
from __future__ import annotations
import numpy as np
from hypothesis import strategies as st
from .. import gen_fgg, oracle_fgg as of, cmp, admit, iso

ID = 'C05'
RULE = ("G1 specs (externals anywhere, disconnected nodes, several components, nullary and repeated-attachment edges, "
        "nonterminal names chosen to clash with the X_1 naming scheme) x {min_fill,quickbb,acb} x entry points "
        "{factorize_fgg, factorize_hrg, factorize_rule with labels=None / with a label set / on a rule of hrg.copy()}; "
        "oracle = own inlining of fresh nonterminals (identity on shared Node/Edge objects, else brute-force "
        "isomorphism) must reproduce each original rule; start/terminals/factors/domains unchanged; fresh names "
        "distinct and unused; |nodes(new rule)| <= |nodes(original)|; method recorded at tree_decomposition equals "
        "the requested one; sum_product(factorized) = sum_product(original) = independent evaluator. "
        "non-trivial = some rule was split into >= 2 rules; distinct by case hash")
ASSUMPTIONS = ["Real float64 sum-products; recursive specs rescaled to a finite least fixed point (rho<=0.9) and compared at 1e-6",
               "labels argument of factorize_rule is a set of EdgeLabel objects (as factorize_hrg passes it)"]
ESSENTIAL_LABELS = ['isolated-node-rule', 'multi-component-rule', 'split', 'name-clash-bait']
METHODS = ('min_fill', 'quickbb', 'acb')


def budget(tier):
    return {'examples': 480 if tier == 'quick' else 8000, 'shrink_calls': 200}


@st.composite
def cases(draw, tier):
    rec = draw(st.integers(0, 3)) == 0
    spec = draw(gen_fgg.specs(recursive=rec, weights=(0.0, 0.25, 0.5, 1.0) if rec else (0.0, 0.25, 0.5, 1.0, 2.0),
                              max_nts=3, max_dom=2, max_edges=5 if tier == 'thorough' else 4, max_nodes=6, max_extra=2))
    # rename nonterminals to provoke clashes with the fresh-name scheme <lhs>_<i>
    names = list(spec['nonterminals'])
    ren = {}
    if len(names) >= 2 and draw(st.booleans()):
        pool = ['S_1', 'S_2', 'S_1_1', 'X1_1', 'S_3']
        for n in names[1:]:
            if draw(st.booleans()):
                c = draw(st.sampled_from(pool))
                if c not in ren.values() and c not in names:
                    ren[n] = c
    if ren:
        spec = rename_nts(spec, ren)
    return {'spec': spec}


def rename_nts(spec, ren):
    f = lambda n: ren.get(n, n)
    return {'node_labels': spec['node_labels'], 'terminals': spec['terminals'],
            'nonterminals': {f(k): v for k, v in spec['nonterminals'].items()}, 'start': f(spec['start']),
            'rules': [{'lhs': f(r['lhs']), 'nodes': r['nodes'], 'ext': r['ext'],
                       'edges': [{'label': f(e['label']), 'att': e['att']} for e in r['edges']]} for r in spec['rules']]}


def strategy(tier):
    return cases(tier)


def rule_shape(r):
    """(has isolated node, number of connected components of the primal graph incl. ext clique)"""
    n = len(r['nodes'])
    adj = {i: set() for i in range(n)}
    groups = [e['att'] for e in r['edges']] + [r['ext']]
    for g in groups:
        for a in g:
            for b in g:
                if a != b: adj[a].add(b)
    seen = set(); comps = 0
    for i in range(n):
        if i not in seen:
            comps += 1
            st_ = [i]; seen.add(i)
            while st_:
                u = st_.pop()
                for w in adj[u]:
                    if w not in seen: seen.add(w); st_.append(w)
    return any(not adj[i] for i in range(n)) and n > 1, comps


def inline(root, rules_by_lhs, fresh, ctx, what):
    """Own inlining. Returns (nodes(list), edges(list of fggs.Edge or (label, nodes) tuples), ext) or None."""
    nodes = list(root.rhs.nodes())
    ext = list(root.rhs.ext)
    edges = []
    agenda = [(e, {}) for e in root.rhs.edges()]   # (edge, node renaming applied to its attachment nodes)
    steps = 0
    while agenda:
        steps += 1
        if steps > 500:
            ctx.violation('inline-diverges', f'{what}: fresh nonterminals are recursive'); return None
        e, ren = agenda.pop(0)
        att = tuple(ren.get(v, v) for v in e.nodes)
        if e.label.name in fresh:
            rs = rules_by_lhs.get(e.label, [])
            if len(rs) != 1:
                ctx.violation('fresh-nt-rule-count', f'{what}: fresh nonterminal {e.label.name} has {len(rs)} rules'); return None
            child = rs[0].rhs
            if len(child.ext) != len(att):
                ctx.violation('fresh-nt-arity', f'{what}: {e.label.name}'); return None
            sub = dict(zip(child.ext, att))
            for v in child.nodes():
                if v not in sub:
                    sub[v] = ren.get(v, v)
                    nodes.append(sub[v])
            for ce in child.edges():
                agenda.append((ce, sub))
        else:
            edges.append((e, att))
    return nodes, edges, ext


def check_against_original(orig_rule, inl, ctx, what):
    """Compare inlined (nodes, edges, ext) with the original rule: identity first, isomorphism second."""
    nodes, edges, ext = inl
    o_nodes = list(orig_rule.rhs.nodes())
    o_edges = list(orig_rule.rhs.edges())
    def ekey(e, att): return (e.label.name, tuple(id(v) for v in att), repr(e.id))
    same = (len(nodes) == len(o_nodes)
            and all(any(v is u for u in o_nodes) for v in nodes)
            and len({id(v) for v in nodes}) == len(nodes)
            and len(ext) == len(orig_rule.rhs.ext) and all(a is b for a, b in zip(ext, orig_rule.rhs.ext))
            and sorted(ekey(e, att) for e, att in edges) == sorted(ekey(e, e.nodes) for e in o_edges))
    ctx.subchecks += 1
    if same:
        ctx.label('inline-identity')
        return True
    # isomorphism fallback
    uniq = []
    for v in nodes:
        if not any(v is u for u in uniq): uniq.append(v)
    pos = lambda v: next(i for i, u in enumerate(uniq) if u is v or u == v)
    try:
        g1 = {'nodes': [v.label.name for v in uniq],
              'edges': [(e.label.name, tuple(pos(v) for v in att)) for e, att in edges],
              'ext': [pos(v) for v in ext]}
    except StopIteration:
        ctx.violation('inline-dangling', f'{what}: an inlined edge is attached to a node that is in no rule'); return False
    g2 = iso.describe(orig_rule.rhs)
    if len(nodes) != len(uniq):
        ctx.violation('inline-node-duplicated', f'{what}: a node occurs in two sibling rules without being external'); return False
    r = iso.isomorphic(g1, g2)
    if r is None:
        ctx.skip('isomorphism search limit'); return True
    if not r:
        ctx.violation('not-isomorphic', f'{what}: inlining the fresh nonterminals gives {g1}, original rule is {g2}')
        return False
    ctx.label('inline-isomorphic')
    return True


def valid_rule(rule, ctx, what):
    g = rule.rhs
    ns = list(g.nodes())
    ok = rule.lhs.is_nonterminal and tuple(rule.lhs.type) == tuple(v.label for v in g.ext)
    ok = ok and all(any(v is u or v == u for u in ns) for e in g.edges() for v in e.nodes)
    ok = ok and all(any(v is u or v == u for u in ns) for v in g.ext)
    ok = ok and all(tuple(e.label.type) == tuple(v.label for v in e.nodes) for e in g.edges())
    ok = ok and len({v.id for v in ns}) == len(ns) and len({e.id for e in g.edges()}) == len(list(g.edges()))
    return ctx.require(ok, 'invalid-new-rule', f'{what}: {rule}')


def check_rule_factorization(orig_rule, newrules, avoid_names, ctx, what):
    """Clauses (b),(d),(e) for the output of factorize_rule on one rule. avoid_names: names that fresh labels must avoid."""
    import fggs
    if not ctx.require(len(newrules) >= 1, 'no-rules', what): return False
    roots = [r for r in newrules if r.lhs == orig_rule.lhs]
    fresh_rules = [r for r in newrules if r.lhs != orig_rule.lhs]
    fresh = [r.lhs.name for r in fresh_rules]
    if not ctx.require(len(roots) >= 1, 'no-root-rule', f'{what}: no new rule has the original lhs {orig_rule.lhs.name}'):
        return False
    ok = True
    ok &= ctx.require(len(set(fresh)) == len(fresh), 'fresh-names-not-distinct', f'{what}: {fresh}')
    clash = [n for n in fresh if n in avoid_names]
    ok &= ctx.require(not clash, 'fresh-name-collides', f'{what}: fresh names {clash} collide with existing labels {sorted(avoid_names)}')
    if not ok: return False
    n0 = len(list(orig_rule.rhs.nodes()))
    for r in newrules:
        if not valid_rule(r, ctx, what): return False
        if not ctx.require(len(list(r.rhs.nodes())) <= n0, 'rule-widened',
                           f'{what}: new rule has {len(list(r.rhs.nodes()))} nodes, original {n0}'):
            return False
    if len(roots) != 1:
        # the original lhs may legitimately recur only as root
        ctx.violation('several-roots', f'{what}: {len(roots)} new rules carry the original lhs'); return False
    by_lhs = {}
    for r in fresh_rules:
        by_lhs.setdefault(r.lhs, []).append(r)
    # every fresh rule must be reachable from the root (nothing orphaned) -- checked via edge count after inlining
    inl = inline(roots[0], by_lhs, set(fresh), ctx, what)
    if inl is None: return False
    used_fresh = set()
    def walk(rule):
        for e in rule.rhs.edges():
            if e.label.name in set(fresh) and e.label not in used_fresh:
                used_fresh.add(e.label)
                for rr in by_lhs.get(e.label, []): walk(rr)
    walk(roots[0])
    if not ctx.require(len(used_fresh) == len(fresh), 'orphan-fresh-rule', f'{what}: {len(fresh) - len(used_fresh)} fresh rules unreachable from the root rule'):
        return False
    return check_against_original(orig_rule, inl, ctx, what)


class MethodRecorder:
    def __init__(self):
        self.calls = []
    def __enter__(self):
        import fggs.factorize as fz
        self.fz = fz
        self.orig = fz.tree_decomposition
        rec = self
        def wrapper(graph, method='min_fill'):
            rec.calls.append(method)
            return rec.orig(graph, method=method)
        fz.tree_decomposition = wrapper
        return self
    def __exit__(self, *a):
        self.fz.tree_decomposition = self.orig


def check(case, ctx):
    import torch, fggs
    from fggs import factorize as fz
    spec = case['spec']
    feats = gen_fgg.spec_features(spec)
    ctx.label(*feats)
    if any(n in ('S_1', 'S_2', 'S_1_1', 'X1_1', 'S_3') for n in spec['nonterminals']): ctx.label('name-clash-bait')
    for r in spec['rules']:
        isol, comps = rule_shape(r)
        if isol: ctx.label('isolated-node-rule')
        if comps > 1: ctx.label('multi-component-rule')
    # reference sum-product
    s_eval = spec
    ref = None
    if gen_fgg.is_recursive(spec):
        s2, fp, h = admit.admit(spec)
        if s2 is not None:
            s_eval = s2; ref = {k: v.numpy() for k, v in fp['x'].items()}
        else:
            ctx.skip('recursive spec not admissible: sum-product clause skipped')
    else:
        ref = of.NumEval(spec, of.RealOps).nonrecursive()
    try:
        fgg, info = gen_fgg.build(s_eval, 'real', torch.float64)
    except Exception as e:
        ctx.violation('build-failed', f'{type(e).__name__}: {e}'); return
    orig_rules = fgg.all_rules()
    orig_names = {el.name for el in fgg.edge_labels()}
    split = False
    sp_opts = dict(method='newton', tol=1e-12, kmax=200, semiring=fggs.RealSemiring(dtype=torch.float64))
    for m in METHODS:
        # ---- factorize_fgg
        with MethodRecorder() as rec:
            try:
                new = ctx.call(f'factorize_fgg[{m}]', fz.factorize_fgg, fgg, method=m)
            except Exception:
                continue
        what = f'factorize_fgg[{m}]'
        ctx.require(all(c == m for c in rec.calls) and (len(rec.calls) == len(orig_rules)), 'method-not-honoured',
                    f'{what}: tree_decomposition called with methods {sorted(set(rec.calls))} x{len(rec.calls)} for {len(orig_rules)} rules', method=m, entry='fgg')
        ok = ctx.require(new.start == fgg.start, 'start-changed', what)
        ok &= ctx.require(set(t.name for t in new.terminals()) <= set(t.name for t in fgg.terminals()) and
                          all(t in list(fgg.terminals()) for t in new.terminals()), 'terminals-changed', what)
        used_terms = {e.label for r in orig_rules for e in r.rhs.edges() if e.label.is_terminal}
        ok &= ctx.require(used_terms <= set(new.terminals()), 'terminal-lost', what)
        ok &= ctx.require(dict(new.factors) == dict(fgg.factors) and dict(new.domains) == dict(fgg.domains), 'interpretation-changed', what)
        if not ok: continue
        grouped = group_rules(fgg, new, orig_names, ctx, what)
        if grouped is None: continue
        for orule, nrules in grouped:
            if len(nrules) >= 2: split = True
            check_rule_factorization(orule, nrules, orig_names, ctx, what)
        if ref is not None:
            try:
                z = ctx.call(f'sum_product(factorized[{m}])', fggs.sum_product, new, **sp_opts)
                z0 = ctx.call('sum_product(original)', fggs.sum_product, fgg, **sp_opts)
            except Exception:
                continue
            msg = cmp.compare(z, ref[spec['start']], 'real', 'float64', rtol=1e-6, what=f'{what} vs reference: ')
            ctx.require(msg is None, 'sum-product-changed', msg or '', method=m)
            msg = cmp.compare(z, cmp.to_numpy(z0), 'real', 'float64', rtol=1e-6, what=f'{what} vs original: ')
            ctx.require(msg is None, 'sum-product-changed', msg or '', method=m)
        # ---- factorize_hrg on the same object (an FGG is an HRG)
        with MethodRecorder() as rec:
            try:
                newh = ctx.call(f'factorize_hrg[{m}]', fz.factorize_hrg, fgg, method=m)
            except Exception:
                continue
        ctx.require(all(c == m for c in rec.calls) and len(rec.calls) == len(orig_rules), 'method-not-honoured',
                    f'factorize_hrg[{m}]: methods {sorted(set(rec.calls))}', method=m, entry='hrg')
        ctx.require(newh.start == fgg.start, 'start-changed', f'factorize_hrg[{m}]')
        grouped = group_rules(fgg, newh, orig_names, ctx, f'factorize_hrg[{m}]')
        if grouped is not None:
            for orule, nrules in grouped:
                check_rule_factorization(orule, nrules, orig_names, ctx, f'factorize_hrg[{m}]')
    # ---- factorize_rule directly: labels=None, explicit label set, and on a rule of hrg.copy()
    m = METHODS[len(spec['rules']) % 3]
    hcopy = None
    try:
        hcopy = ctx.call('HRG.copy', fgg.copy)
    except Exception:
        pass
    for ri, orule in enumerate(orig_rules):
        rhs_nts = {e.label.name for e in orule.rhs.edges() if e.label.is_nonterminal}
        avoid = rhs_nts | {orule.lhs.name}
        with MethodRecorder() as rec:
            try:
                nr = ctx.call(f'factorize_rule[{m}]', fz.factorize_rule, orule, method=m)
            except Exception:
                continue
        ctx.require(rec.calls == [m], 'method-not-honoured', f'factorize_rule[{m}]: {rec.calls}', method=m, entry='rule')
        check_rule_factorization(orule, nr, avoid, ctx, f'factorize_rule[{m}] rule {ri}')
        labels = set(fgg.edge_labels())
        before = set(labels)
        try:
            nr = ctx.call(f'factorize_rule[{m},labels]', fz.factorize_rule, orule, method=m, labels=labels)
        except Exception:
            continue
        if check_rule_factorization(orule, nr, {l.name for l in before}, ctx, f'factorize_rule[{m},labels] rule {ri}'):
            ctx.require({r.lhs for r in nr} <= labels, 'labels-not-updated', 'new EdgeLabels were not added to the labels set')
        if hcopy is not None:
            crule = hcopy.all_rules()[ri]
            try:
                nr = ctx.call(f'factorize_rule[{m},copy]', fz.factorize_rule, crule, method=m)
            except Exception:
                continue
            check_rule_factorization(crule, nr, avoid, ctx, f'factorize_rule[{m}] on rule {ri} of a copy')
    if split: ctx.label('split')
    ctx.nontrivial = split


def group_rules(fgg, new, orig_names, ctx, what):
    """Associate each original rule with the new rules derived from it.  Root rules keep the original lhs and
    appear in the original order; the fresh rules belonging to a root are those reachable from it."""
    out = []
    all_new = new.all_rules()
    by_lhs = {}
    for r in all_new:
        by_lhs.setdefault(r.lhs, []).append(r)
    claimed = set()
    for lhs in {r.lhs: None for r in fgg.all_rules()}:
        olds = fgg.rules(lhs)
        news = new.rules(lhs)
        if not ctx.require(len(olds) == len(news), 'rule-count', f'{what}: {lhs.name} had {len(olds)} rules, now {len(news)}'):
            return None
        for o, n in zip(olds, news):
            group = [n]
            stack = [n]
            seen = set()
            while stack:
                r = stack.pop()
                for e in r.rhs.edges():
                    if e.label.name not in orig_names and e.label not in seen:
                        seen.add(e.label)
                        for rr in by_lhs.get(e.label, []):
                            group.append(rr); stack.append(rr); claimed.add(id(rr))
            claimed.add(id(n))
            out.append((o, group))
    extra = [r for r in all_new if id(r) not in claimed]
    if not ctx.require(not extra, 'unaccounted-rules', f'{what}: {len(extra)} new rules belong to no original rule'):
        return None
    return out


def route(case, v):
    return None


def selfcheck():
    of.selfcheck()
    a = {'nodes': ['A', 'A', 'B'], 'edges': [('f', (0, 2)), ('g', (1,))], 'ext': [1]}
    b = {'nodes': ['B', 'A', 'A'], 'edges': [('g', (2,)), ('f', (1, 0))], 'ext': [2]}
    c = {'nodes': ['B', 'A', 'A'], 'edges': [('g', (2,)), ('f', (2, 0))], 'ext': [2]}
    assert iso.isomorphic(a, b) is True and iso.isomorphic(a, c) is False
