"""C01  Sum-product of a non-recursive FGG equals its definition."""
from __future__ import annotations
import numpy as np
from hypothesis import strategies as st
from .. import gen_fgg, oracle_fgg as of, cmp

ID = 'C01'
RULE = ("G1 non-recursive grammar specs (<=4 nonterminals, <=3 rules each, <=4 edges and <=7 nodes per rule, domain "
        "sizes 1..3 (4 thorough), weights from {0,1/4,1/2,1,2,3,inf}) x sampled configurations of "
        "{Real,Log,Viterbi,Bool} x {float32,float64} x {fixed-point,newton,linear} x j_precompute; oracle = "
        "independent numpy evaluator enumerating all assignments of all rhs nodes (0*inf=0), itself cross-checked "
        "against derivation enumeration + brute force; observed: sum_product, every entry of sum_products, "
        "singleton_fgg of a terminal-only rule; non-trivial = some reachable rule has an edge and the spec shows "
        ">=1 special shape (disconnected internal, edgeless external, repeated attachment, nullary factor, rule-less "
        "or unreachable nonterminal, start arity>0, zero/inf weight, size-1 domain, several rules per lhs); "
        "distinct by canonical case hash")
ASSUMPTIONS = ["every terminal has a FiniteFactor and every node label a finite domain (the statement's domain)",
               "Log/Viterbi weights are the logs of the Real weights; Bool weights are w>0",
               "tolerance |a-b| <= rtol*(1+|b|), rtol 1e-9 (float64) / 1e-4 (float32); infinities and zeros exact"]
ESSENTIAL_LABELS = ['patterned-weight', 'disconnected-internal', 'edgeless-external', 'repeated-attachment', 'ruleless-nt',
                    'unreachable-nt', 'start-arity>0', 'zero-weight', 'inf-weight', 'size1-domain']
KINDS = ['real', 'log', 'viterbi', 'bool']
METHODS = ['fixed-point', 'newton', 'linear']


def budget(tier):
    return {'examples': 1300 if tier == 'quick' else 24000, 'shrink_calls': 250}


@st.composite
def cases(draw, tier):
    base = gen_fgg.specs(recursive=False, weights=(0.0, 0.0, 0.25, 0.5, 1.0, 1.0, 2.0, 3.0, of.INF),
                         max_dom=3 if tier == 'quick' else 4)
    # a quarter of the specs carry typed patterned factor weights (sums, products, shared axes, stride-0 views)
    # (a third of those with a default that is not the semiring zero: elements outside the pattern have weight 1 or 1/2)
    spec = draw(gen_fgg.patterned(base, weights=(0.0, 0.25, 0.5, 1.0, 2.0, of.INF), defaults=(0.0, 0.0, 1.0, 0.5)) if draw(st.integers(0, 3)) == 0 else base)
    if draw(st.integers(0, 7)) == 0:
        gen_fgg.inject_expanded_child(draw, spec)     # S1(q,p,r) -> Y0(p,q) f0(r), Y0's externals edgeless: expanded axes re-inserted out of order
    nconf = 6 if tier == 'quick' else 10
    configs = []
    for _ in range(nconf):
        configs.append([draw(st.sampled_from(KINDS)), draw(st.sampled_from(['float64', 'float32'])),
                        draw(st.sampled_from(METHODS)), draw(st.booleans())])
    return {'spec': spec, 'configs': configs}


def strategy(tier):
    return cases(tier)


def reference(spec, kind):
    if kind == 'log':
        r = of.NumEval(spec, of.RealOps).nonrecursive()
        with np.errstate(divide='ignore'):
            return {k: np.log(v) for k, v in r.items()}
    ops = {'real': of.RealOps, 'viterbi': of.MaxPlusOps, 'bool': of.BoolOps}[kind]
    return of.NumEval(spec, ops).nonrecursive()


def check(case, ctx):
    import torch, fggs
    spec = case['spec']
    feats = gen_fgg.spec_features(spec)
    ctx.label(*feats)
    if 'zero-weight' in feats and 'disconnected-internal' in feats:
        ctx.label('zero-weight&disconnected')
    refs = {}
    seen = set()
    for kind, dt, method, jp in case['configs']:
        key = (kind, dt if kind != 'bool' else '-', method, jp)
        if key in seen: continue
        seen.add(key)
        dtype = getattr(torch, dt)
        if kind not in refs:
            refs[kind] = reference(spec, kind)
        ref = refs[kind]
        try:
            fgg, info = gen_fgg.build(spec, kind, dtype)
        except Exception as e:   # building through the public API must work for every generated spec
            ctx.violation('build-failed', f'{type(e).__name__}: {e}')
            return
        sr = gen_fgg.make_semiring(kind, dtype)
        opts = dict(method=method, semiring=sr, j_precompute=jp)
        cfg = f'{kind}/{dt}/{method}/jp={jp}'
        ctx.label('cfg:' + kind)
        try:
            z = ctx.call('sum_product', fggs.sum_product, fgg, **opts)
            zs = ctx.call('sum_products', fggs.sum_products, fgg, **opts)
        except Exception:
            ctx.violations[-1].detail['config'] = cfg
            continue
        m = cmp.compare(z, ref[spec['start']], kind, dt, what=f'[{cfg}] sum_product: ')
        ctx.require(m is None, 'wrong-value:sum_product', m or '', config=cfg, sr=kind)
        for nt in spec['nonterminals']:
            el = info['els'][nt]
            if not ctx.require(el in zs, 'missing-nonterminal', f'[{cfg}] sum_products has no entry for {nt}'):
                continue
            m = cmp.compare(zs[el], ref[nt], kind, dt, what=f'[{cfg}] sum_products[{nt}]: ')
            ctx.require(m is None, 'wrong-value:sum_products', m or '', config=cfg, sr=kind, nt=nt)
        # terminals are reported with their own weights
        for tname in spec['terminals']:
            el = info['els'][tname]
            if el in zs:
                ctx.require(zs[el] is fgg.factors[tname].weights or zs[el].equal(fgg.factors[tname].weights),
                            'terminal-entry-changed', f'[{cfg}] sum_products[{tname}] is not the factor weight')
    # singleton_fgg of a factor graph made from a terminal-only rule
    for ri, r in enumerate(spec['rules']):
        if r['edges'] and all(e['label'] in spec['terminals'] for e in r['edges']):
            kind = case['configs'][0][0]
            dtn = case['configs'][0][1]
            dtype = getattr(torch, dtn)
            if kind not in refs: refs[kind] = reference(spec, kind)
            singleton_check(spec, ri, r, kind, dtn, dtype, ctx)
            break
    reach = gen_fgg.reachable_nts(spec)
    has_edge = any(r['edges'] for r in spec['rules'] if r['lhs'] in reach)
    special = feats & {'disconnected-internal', 'edgeless-external', 'repeated-attachment', 'nullary-factor',
                       'ruleless-nt', 'unreachable-nt', 'start-arity>0', 'zero-weight', 'inf-weight',
                       'size1-domain', 'multi-rule-lhs'}
    ctx.nontrivial = bool(has_edge and special)


def singleton_check(spec, ri, r, kind, dtn, dtype, ctx):
    import torch, fggs
    from fggs.domains import FiniteDomain
    ops = {'real': of.RealOps, 'log': of.RealOps, 'viterbi': of.MaxPlusOps, 'bool': of.BoolOps}[kind]
    ref = of.NumEval(spec, ops).rule_value(r, {})
    if kind == 'log':
        with np.errstate(divide='ignore'):
            ref = np.log(ref)
    try:
        fg = fggs.FactorGraph()
        nls = {n: fggs.NodeLabel(n) for n in spec['node_labels']}
        nodes = [fggs.Node(nls[nl]) for nl in r['nodes']]
        for v in nodes: fg.add_node(v)
        for e in r['edges']:
            t = spec['terminals'][e['label']]
            fg.add_edge(fggs.Edge(fggs.EdgeLabel(e['label'], [nls[x] for x in t['type']], is_terminal=True),
                                  [nodes[a] for a in e['att']]))
        fg.ext = [nodes[p] for p in r['ext']]
        for n, size in spec['node_labels'].items():
            fg.add_domain(nls[n], FiniteDomain(list(range(size))))
        for e in r['edges']:
            if e['label'] not in fg.factors:
                fg.new_finite_factor(e['label'], gen_fgg._convert(spec['terminals'][e['label']]['weights'], kind, dtype))
    except Exception as ex:
        ctx.violation('build-failed', f'FactorGraph construction: {type(ex).__name__}: {ex}')
        return
    try:
        fgg = ctx.call('singleton_fgg', fggs.singleton_fgg, fg)
        z = ctx.call('sum_product(singleton)', fggs.sum_product, fgg, semiring=gen_fgg.make_semiring(kind, dtype))
    except Exception:
        return
    m = cmp.compare(z, ref, kind, dtn, what=f'[singleton {kind}/{dtn} rule {ri}] ')
    ctx.require(m is None, 'wrong-value:singleton', m or "", sr=kind)
    ctx.label('singleton-checked')


def route(case, v):
    return None


def selfcheck():
    of.selfcheck()
