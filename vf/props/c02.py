"""C02  Sum-product of a recursive FGG is the least fixed point, or says otherwise."""
from __future__ import annotations
import math, warnings
import numpy as np
from hypothesis import strategies as st
from .. import gen_fgg, oracle_fgg as of, cmp, admit

ID = 'C02'
RULE = ("G1 recursive grammar specs (self-loops, mutual recursion, linear/non-linear, weight-one cycles, SCC feeding "
        "SCC, optionally under a diamond S0 -> D0 E0 over the old start; weights {0,.1,.25,.5,1}; plus a closed-form near-critical family S(v) -> S(v) a(v) | b(v) with a = 1 - 2^-k, k <= 50) x {Real,Log,Viterbi,Bool} x {fixed-point,newton,linear} x tol in "
        "{1e-3,1e-6,1e-10,0} x kmax in {1,2,3,30,1000,10000}, float64. Bool/Viterbi: exact Kleene reference on the spec "
        "as drawn; Real/Log: spec deterministically halved until an independent Newton+autograd reference finds a "
        "finite least fixed point with Jacobian inf-norm rho<=0.9, then |result-x*| <= tol/(1-rho)+slack is required "
        "of every run that did not warn, result <= x*+slack of runs that warned; method=linear must raise ValueError "
        "exactly on non-linearly-recursive grammars. non-trivial = a cyclic SCC is reachable from the start and "
        "x*(start) != 0; distinct by case hash")
ASSUMPTIONS = ["Real/Log judged only on specs with a finite least fixed point and rho_inf(J(x*))<=0.9 (others counted in 'skipped')",
               "Viterbi judged on log-weights <= 0 (finite attained maximum)", "kmax >= 1",
               "slack = 1e-9*(1+max|x*|); Log bound converted to the real domain: max over all nonterminals of x* times (e^tol-1)/(1-rho)",
               "a warning whose message contains 'maximum iteration' is the library's non-convergence warning"]
ESSENTIAL_LABELS = ['geometric', 'near-critical', 'diamond', 'self-loop', 'mutual-recursion', 'linear-recursion', 'nonlinear-recursion', 'weight-one-cycle']
KINDS = ['real', 'log', 'viterbi', 'bool']
METHODS = ['fixed-point', 'newton', 'linear']
TOLS = [1e-3, 1e-6, 1e-10, 0]      # tol=0: iterate until nothing changes (MultiTensor.allclose has an exact branch); bound = slack
KMAXS = [1, 2, 3, 30, 1000, 10000]


def budget(tier):
    return {'examples': 560 if tier == 'quick' else 9000, 'shrink_calls': 200}


GEO_K = [1, 2, 3, 10, 20, 30, 40, 50]


@st.composite
def geometric_cases(draw, tier):
    """Near-critical family with a closed form: S(v) -> S(v) a(v) | b(v), a(v) = 1 - f 2^-k, so that
    Z(v) = b(v) / (1 - a(v)) in closed form (1 - a is exact in floating point for a >= 1/2).  Reaches cycle weights within 1e-15 of one, which the general admission rule (rho <= 0.9) excludes."""
    n = draw(st.sampled_from([0, 1, 2, 3]))
    m = max(1, n)
    ks = [draw(st.sampled_from(GEO_K)) for _ in range(m)]
    bs = [draw(st.sampled_from([0.25, 0.5, 1.0, 3.0, 0.0])) for _ in range(m)]
    configs = [[draw(st.sampled_from(KINDS)), draw(st.sampled_from(['linear', 'linear', 'newton', 'fixed-point'])), draw(st.sampled_from(TOLS)),
                draw(st.sampled_from([30, 1000]))] for _ in range(6)]
    fs = [draw(st.sampled_from([1.0, 1.1, 1.37, 0.7, 1.9])) for _ in range(m)]      # non-dyadic cycle weights: exp(log a) != a in general
    return {'kind': 'geometric', 'n': n, 'ks': ks, 'fs': fs, 'bs': bs, 'configs': configs, 'order': draw(st.booleans())}


@st.composite
def cases(draw, tier):
    if draw(st.integers(0, 9)) == 0:
        return draw(geometric_cases(tier))
    base = gen_fgg.specs(recursive=True, weights=(0.0, 0.1, 0.25, 0.5, 0.5, 1.0, 1.0), max_nts=3,
                         max_dom=2 if tier == 'quick' else 3, max_edges=3, max_nodes=5)
    spec = draw(gen_fgg.patterned(base, weights=(0.0, 0.1, 0.25, 0.5, 1.0)) if draw(st.integers(0, 3)) == 0 else base)
    if draw(st.integers(0, 5)) == 0:
        gen_fgg.inject_diamond(draw, spec)       # sibling nonterminals over a shared finished SCC (cross edges in the dependency graph)
    n = 8 if tier == 'quick' else 14
    configs = [[draw(st.sampled_from(KINDS)), draw(st.sampled_from(METHODS)), draw(st.sampled_from(TOLS)),
                draw(st.sampled_from(KMAXS))] for _ in range(n)]
    for c in configs:
        if c[2] == 0: c[3] = min(c[3], 1000)      # an iteration that oscillates in the last bit runs to kmax: keep that affordable
    return {'spec': spec, 'configs': configs}


def strategy(tier):
    return cases(tier)


def linear_expectation(spec):
    """'linear' | 'nonlinear' | 'ambiguous' (non-linearity only in nonterminals unreachable from the start)."""
    if gen_fgg.is_linear(spec):
        return 'linear'
    comps, g = gen_fgg.sccs(spec)
    comp_of = {x: c for c in comps for x in c}
    reach = gen_fgg.reachable_nts(spec)
    for r in spec['rules']:
        c = comp_of[r['lhs']]
        cyc = len(c) > 1 or r['lhs'] in g[r['lhs']]
        if cyc and sum(1 for e in r['edges'] if e['label'] in c) > 1 and r['lhs'] in reach:
            return 'nonlinear'
    return 'ambiguous'


def has_weight_one_cycle(spec):
    """A cyclic nonterminal whose Viterbi value is reached through a cycle of log-weight 0 is hard to detect
    in general; label the syntactic case: a recursive rule all of whose terminal weights contain a 1.0."""
    cyc = gen_fgg.cyclic_nts(spec)
    for r in spec['rules']:
        if r['lhs'] in cyc and any(e['label'] in cyc for e in r['edges']):
            ts = [e['label'] for e in r['edges'] if e['label'] in spec['terminals']]
            if all(any(x == 1.0 for x in gen_fgg.flatten(spec['terminals'][t]['weights'])) for t in ts):
                return True
    return False


def run_lib(ctx, fgg, **opts):
    """Returns (dense start value as numpy, warned, error) ."""
    import fggs
    with warnings.catch_warnings(record=True) as rec:
        warnings.simplefilter('always')
        z = fggs.sum_product(fgg, **opts)
    warned = any('maximum iteration' in str(w.message) for w in rec)
    return z, warned


def geometric_a(case):
    # a in [0.05, 1): for a >= 0.5 the subtraction 1 - a below is exact (Sterbenz), so b / (1 - a) is the closed form to 1 ulp
    return [1.0 - 2.0 ** -k * f for k, f in zip(case['ks'], case.get('fs') or [1.0] * len(case['ks']))]


def geometric_spec(case):
    n = case['n']
    ty = ['N'] if n else []
    a = geometric_a(case)
    b = list(case['bs'])
    rules = [{'lhs': 'S', 'nodes': list(ty), 'ext': list(range(len(ty))), 'edges': [{'label': 'S', 'att': list(range(len(ty)))}, {'label': 'a', 'att': list(range(len(ty)))}]},
             {'lhs': 'S', 'nodes': list(ty), 'ext': list(range(len(ty))), 'edges': [{'label': 'b', 'att': list(range(len(ty)))}]}]
    if case.get('order'): rules.reverse()
    return {'node_labels': {'N': n} if n else {}, 'terminals': {'a': {'type': ty, 'weights': a if n else a[0]}, 'b': {'type': ty, 'weights': b if n else b[0]}},
            'nonterminals': {'S': ty}, 'start': 'S', 'rules': rules}


def check_geometric(case, ctx):
    import torch, fggs
    spec = geometric_spec(case)
    ctx.label('geometric', 'near-critical' if max(case['ks']) >= 20 else None, 'self-loop', 'linear-recursion')
    ks, bs = case['ks'], case['bs']
    avals = geometric_a(case)
    real = np.array([b / (1.0 - a_) for b, a_ in zip(bs, avals)])     # closed form, correctly rounded up to 1 ulp
    rho = max(avals)
    seen = set()
    for kind, method, tol, kmax in case['configs']:
        if (kind, method, tol, kmax) in seen: continue
        seen.add((kind, method, tol, kmax))
        dtype = torch.float64
        hook = None
        if kind == 'log':
            # log-weights given directly in the log domain (x = -f 2^-k is not the logarithm of a float, so exp(x) rounds:
            # the cancellation in 1 - exp(x) is real); the closed form below is evaluated on the values the library holds
            def hook(name, w, case=case):
                if name != 'a': return w
                xs = [-f * 2.0 ** -k for k, f in zip(case['ks'], case.get('fs') or [1.0] * len(case['ks']))]
                return torch.tensor(xs if case['n'] else xs[0], dtype=torch.float64).reshape(w.shape)
        fgg, info = gen_fgg.build(spec, kind, dtype, weight_hook=hook)
        sr = gen_fgg.make_semiring(kind, dtype)
        cfg = f'geometric/{kind}/{method}/tol={tol}/kmax={kmax}/k={ks}'
        ctx.label('cfg:' + kind + '/' + method)
        try:
            z, warned = ctx.call('sum_product', run_lib, ctx, fgg, method=method, semiring=sr, tol=tol, kmax=kmax)
        except Exception:
            ctx.violations[-1].detail.update(config=cfg, sr=kind, method=method); continue
        if warned: ctx.label('warned')
        got = np.asarray(cmp.to_numpy(z)).reshape(-1)
        det = dict(config=cfg, sr=kind, method=method, warned=warned)
        if not ctx.require(got.shape == real.shape, 'wrong-shape', f'[{cfg}] {got.shape}', **det): continue
        if kind == 'bool':
            want = real > 0
            ctx.require(not np.any(got & ~want) if warned else np.array_equal(got, want), 'bool-wrong', f'[{cfg}] got {got.tolist()} expected {want.tolist()}', **det)
            continue
        if np.isnan(got).any():
            ctx.violation('nan', f'[{cfg}] {got.tolist()}', **det); continue
        if kind == 'viterbi':
            with np.errstate(divide='ignore'):
                want = np.log(np.asarray(bs, dtype=float))              # a < 1: the best derivation uses the cycle zero times
            ok = np.all(got <= want + 1e-9) if warned else np.allclose(got, want, rtol=0, atol=1e-9, equal_nan=False) or np.array_equal(got, want)
            ctx.require(bool(ok), 'viterbi-wrong', f'[{cfg}] got {got.tolist()} expected {want.tolist()}', **det)
            continue
        if kind == 'log':
            # the closed form on the log-weights the library actually holds: log b - log(-expm1(x))
            xa = np.asarray(cmp.to_numpy(fgg.factors['a'].weights)).reshape(-1)
            xb = np.asarray(cmp.to_numpy(fgg.factors['b'].weights)).reshape(-1)
            want = np.array([(-math.inf if b_ == -math.inf else b_ - math.log(-math.expm1(a_))) for a_, b_ in zip(xa, xb)])
            if method == 'linear':
                fin = np.isfinite(want)
                ok = np.array_equal(np.isfinite(got), fin) and np.all(np.abs(got[fin] - want[fin]) <= 1e-10 * (1 + np.abs(want[fin])))
                ctx.require(bool(ok), 'lfp-error-exceeds-bound', f'[{cfg}] linear: got {got.tolist()} closed form {want.tolist()}', **det)
                if not warned and fin.any(): ctx.nontrivial = True
                continue
            with np.errstate(over='ignore'):
                greal = np.exp(got); wreal = np.exp(want)
            bound = wreal.max(initial=0.0) * math.expm1(tol) / (1 - rho) + 1e-9 * (1 + wreal.max(initial=0.0))
        else:
            greal, wreal = got, real
            if method == 'linear':
                ok = np.all(np.abs(greal - wreal) <= 1e-12 * (1 + np.abs(wreal)))
                ctx.require(bool(ok), 'lfp-error-exceeds-bound', f'[{cfg}] linear: got {greal.tolist()} closed form {wreal.tolist()}', **det)
                if not warned and wreal.any(): ctx.nontrivial = True
                continue
            bound = tol / (1 - rho) + 1e-9 * (1 + wreal.max(initial=0.0))
        if warned:
            ctx.require(bool(np.all(greal <= wreal * (1 + 1e-9) + 1e-12)), 'above-lfp', f'[{cfg}] warned; got {greal.tolist()} lfp {wreal.tolist()}', **det)
        else:
            err = float(np.max(np.abs(greal - wreal))) if greal.size else 0.0
            ctx.require(err <= bound, 'lfp-error-exceeds-bound', f'[{cfg}] no warning, |result-x*|={err:.3e} > bound {bound:.3e}; got {greal.tolist()} x*={wreal.tolist()}', **det)
            ctx.require(bool(np.all((wreal != 0) | (greal == 0))), 'zero-pattern', f'[{cfg}] got {greal.tolist()} x*={wreal.tolist()}', **det)


def check(case, ctx):
    import torch, fggs
    if case.get('kind') == 'geometric':
        return check_geometric(case, ctx)
    spec = case['spec']
    feats = gen_fgg.spec_features(spec)
    if 'recursive' not in feats:
        ctx.label('not-recursive'); ctx.skip('drawn spec not recursive')
        return
    ctx.label(*feats)
    if has_weight_one_cycle(spec): ctx.label('weight-one-cycle')
    if 'S0' in spec['nonterminals']: ctx.label('diamond')
    comps, g = gen_fgg.sccs(spec)
    if len([c for c in comps if len(c) > 1 or next(iter(c)) in g[next(iter(c))]]) >= 2: ctx.label('two-cyclic-sccs')
    linexp = linear_expectation(spec)
    start = spec['start']
    reach = gen_fgg.reachable_nts(spec)
    cyclic_reachable = bool(gen_fgg.cyclic_nts(spec) & reach)
    refs = {}
    nontrivial = False

    def get_ref(kind):
        if kind in refs: return refs[kind]
        if kind == 'bool':
            x, rounds = admit.bool_reference(spec)
            refs[kind] = None if rounds is None else {'spec': spec, 'x': x}
        elif kind == 'viterbi':
            x, rounds = admit.viterbi_reference(spec)
            refs[kind] = None if rounds is None else {'spec': spec, 'x': x}
        else:
            if 'reallog' not in refs:
                s, fp, h = admit.admit(spec)
                refs['reallog'] = None if s is None else {'spec': s, 'x': {k: v.numpy() for k, v in fp['x'].items()},
                                                         'rho': fp['rho_inf'], 'halvings': h}
                if s is None: ctx.skip('real/log: not admissible (divergent or rho>0.9 after 6 halvings)')
                else: ctx.label(f'halvings={h}')
            refs[kind] = refs['reallog']
        return refs[kind]

    seen = set()
    for kind, method, tol, kmax in case['configs']:
        key = (kind, method, tol, kmax)
        if key in seen: continue
        seen.add(key)
        ref = get_ref(kind)
        if ref is None:
            if kind in ('bool', 'viterbi'):
                raise AssertionError('harness: Kleene reference not stationary')  # cannot happen for weights <= 1
            continue
        s = ref['spec']
        xstar = ref['x'][start]
        dtype = torch.float64
        try:
            fgg, info = gen_fgg.build(s, kind, dtype)
        except Exception as e:
            ctx.violation('build-failed', f'{type(e).__name__}: {e}'); return
        sr = gen_fgg.make_semiring(kind, dtype)
        cfg = f'{kind}/{method}/tol={tol}/kmax={kmax}'
        ctx.label('cfg:' + kind + '/' + method)
        opts = dict(method=method, semiring=sr, tol=tol, kmax=kmax)
        if method == 'linear' and linexp != 'linear':
            if linexp == 'nonlinear':
                ctx.expect_raises(f'linear-on-nonlinear', ValueError, fggs.sum_product, fgg, **opts)
                ctx.label('linear-rejected')
            else:
                ctx.skip('linear: non-linearity only in unreachable nonterminals')
            continue
        try:
            z, warned = ctx.call('sum_product', run_lib, ctx, fgg, **opts)
        except Exception:
            ctx.violations[-1].detail['config'] = cfg
            ctx.violations[-1].detail['sr'] = kind
            ctx.violations[-1].detail['method'] = method
            continue
        if warned: ctx.label('warned')
        a = cmp.to_numpy(z)
        if not ctx.require(a.shape == np.asarray(xstar).shape, 'wrong-shape', f'[{cfg}] {a.shape}'):
            continue
        det = dict(config=cfg, sr=kind, method=method, warned=warned)
        if kind == 'bool':
            if warned:
                ctx.require(not np.any(a & ~xstar), 'bool-above-lfp', f'[{cfg}] got {a.tolist()} lfp {xstar.tolist()}', **det)
            else:
                ctx.require(np.array_equal(a, xstar), 'bool-wrong', f'[{cfg}] no warning but got {a.tolist()} expected {xstar.tolist()}', **det)
            if xstar.any(): nontrivial = True
        elif kind == 'viterbi':
            if np.isnan(a).any():
                ctx.violation('nan', f'[{cfg}] {a.tolist()}', **det); continue
            tolv = 1e-9 * (1 + np.abs(np.where(np.isinf(xstar), 0, xstar)))
            if warned:
                ctx.require(np.all(a <= np.where(np.isinf(xstar), xstar, xstar + tolv)), 'viterbi-above-lfp',
                            f'[{cfg}] warned; got {a.tolist()} lfp {xstar.tolist()}', **det)
            else:
                m = cmp.compare(a, xstar, 'viterbi', 'float64', what=f'[{cfg}] no warning: ')
                ctx.require(m is None, 'viterbi-wrong', m or '', **det)
            if np.any(np.isfinite(xstar)): nontrivial = True
        else:
            rho = ref['rho']
            scale = float(np.max(np.abs(xstar))) if xstar.size else 0.0
            slack = 1e-9 * (1 + scale)
            if kind == 'log':
                if np.isnan(a).any():
                    ctx.violation('nan', f'[{cfg}] {a.tolist()}', **det); continue
                with np.errstate(over='ignore'):
                    areal = np.exp(a)
                # the stopping rule bounds the *relative* change of every nonterminal's entries, so the absolute
                # step is bounded by the largest entry of any nonterminal (not just of the start symbol)
                scale_all = max([float(np.max(np.abs(v))) for v in ref['x'].values() if np.size(v)] + [0.0])
                bound = (scale_all * math.expm1(tol) / (1 - rho) if method != 'linear' else 0.0) + slack
                zero_ok = np.all((xstar != 0) | (a == -of.INF))
            else:
                areal = a
                bound = (tol / (1 - rho) if method != 'linear' else 0.0) + slack
                zero_ok = np.all((xstar != 0) | (a == 0))
            if np.isnan(areal).any():
                ctx.violation('nan', f'[{cfg}] {a.tolist()}', **det); continue
            if warned:
                ctx.require(np.all(areal <= xstar + slack) and np.all(areal >= 0), 'above-lfp',
                            f'[{cfg}] warned; got {areal.tolist()} lfp {xstar.tolist()}', **det)
            else:
                err = float(np.max(np.abs(areal - xstar))) if xstar.size else 0.0
                ctx.require(err <= bound, 'unconverged-without-warning',
                            f'[{cfg}] no warning, |result-x*|={err:.3e} > bound {bound:.3e} (rho={rho:.3f}); got {areal.tolist()} x*={xstar.tolist()}', **det)
                ctx.require(zero_ok, 'zero-pattern', f'[{cfg}] entries with x*=0 must be exactly zero: got {a.tolist()} x*={xstar.tolist()}', **det)
            if np.any(xstar != 0): nontrivial = True
    ctx.nontrivial = bool(nontrivial and cyclic_reachable)


def route(case, v):
    return None


def selfcheck():
    of.selfcheck()
