"""C02  Sum-product of a recursive FGG is the least fixed point, or says otherwise."""
from __future__ import annotations
import math, warnings
import numpy as np
from hypothesis import strategies as st
from .. import gen_fgg, oracle_fgg as of, cmp, admit

ID = 'C02'
RULE = ("G1 recursive grammar specs (self-loops, mutual recursion, linear/non-linear, weight-one cycles, SCC feeding "
        "SCC; weights {0,.1,.25,.5,1}) x {Real,Log,Viterbi,Bool} x {fixed-point,newton,linear} x tol in "
        "{1e-3,1e-6,1e-10,0} x kmax in {1,2,3,30,1000,10000}, float64. Bool/Viterbi: exact Kleene reference on the spec "
        "as drawn; Real/Log: spec deterministically halved until an independent Newton+autograd reference finds a "
        "finite least fixed point with Jacobian inf-norm rho<=0.9, then |result-x*| <= tol/(1-rho)+slack is required "
        "of every run that did not warn, result <= x*+slack of runs that warned; method=linear must raise ValueError "
        "exactly on non-linearly-recursive grammars. non-trivial = a cyclic SCC is reachable from the start and "
        "x*(start) != 0; distinct by case hash")
ASSUMPTIONS = ["Real/Log judged only on specs with a finite least fixed point and rho_inf(J(x*))<=0.9 (others counted in 'skipped')",
               "Viterbi judged on log-weights <= 0 (finite attained maximum)", "kmax >= 1",
               "slack = 1e-9*(1+max|x*|); Log bound converted to the real domain: max over all nonterminals of x* times (e^tol-1)/(1-rho)",
               "a warning whose message contains 'maximum iteration' is the library's non-convergence warning"]
ESSENTIAL_LABELS = ['self-loop', 'mutual-recursion', 'linear-recursion', 'nonlinear-recursion', 'weight-one-cycle']
KINDS = ['real', 'log', 'viterbi', 'bool']
METHODS = ['fixed-point', 'newton', 'linear']
TOLS = [1e-3, 1e-6, 1e-10, 0]      # tol=0: iterate until nothing changes (MultiTensor.allclose has an exact branch); bound = slack
KMAXS = [1, 2, 3, 30, 1000, 10000]


def budget(tier):
    return {'examples': 560 if tier == 'quick' else 9000, 'shrink_calls': 200}


@st.composite
def cases(draw, tier):
    base = gen_fgg.specs(recursive=True, weights=(0.0, 0.1, 0.25, 0.5, 0.5, 1.0, 1.0), max_nts=3,
                         max_dom=2 if tier == 'quick' else 3, max_edges=3, max_nodes=5)
    spec = draw(gen_fgg.patterned(base, weights=(0.0, 0.1, 0.25, 0.5, 1.0)) if draw(st.integers(0, 3)) == 0 else base)
    n = 8 if tier == 'quick' else 14
    configs = [[draw(st.sampled_from(KINDS)), draw(st.sampled_from(METHODS)), draw(st.sampled_from(TOLS)),
                draw(st.sampled_from(KMAXS))] for _ in range(n)]
    for c in configs:
        if c[2] == 0: c[3] = min(c[3], 1000)      # an iteration that oscillates in the last bit runs to kmax: keep that affordable
    return {'spec': spec, 'configs': configs}


def strategy(tier):
    return cases(tier)


def linear_expectation(spec):
    """'linear' | 'nonlinear' | 'ambiguous' (non-linearity only in nonterminals unreachable from the start)."""
    if gen_fgg.is_linear(spec):
        return 'linear'
    comps, g = gen_fgg.sccs(spec)
    comp_of = {x: c for c in comps for x in c}
    reach = gen_fgg.reachable_nts(spec)
    for r in spec['rules']:
        c = comp_of[r['lhs']]
        cyc = len(c) > 1 or r['lhs'] in g[r['lhs']]
        if cyc and sum(1 for e in r['edges'] if e['label'] in c) > 1 and r['lhs'] in reach:
            return 'nonlinear'
    return 'ambiguous'


def has_weight_one_cycle(spec):
    """A cyclic nonterminal whose Viterbi value is reached through a cycle of log-weight 0 is hard to detect
    in general; label the syntactic case: a recursive rule all of whose terminal weights contain a 1.0."""
    cyc = gen_fgg.cyclic_nts(spec)
    for r in spec['rules']:
        if r['lhs'] in cyc and any(e['label'] in cyc for e in r['edges']):
            ts = [e['label'] for e in r['edges'] if e['label'] in spec['terminals']]
            if all(any(x == 1.0 for x in gen_fgg.flatten(spec['terminals'][t]['weights'])) for t in ts):
                return True
    return False


def run_lib(ctx, fgg, **opts):
    """Returns (dense start value as numpy, warned, error) ."""
    import fggs
    with warnings.catch_warnings(record=True) as rec:
        warnings.simplefilter('always')
        z = fggs.sum_product(fgg, **opts)
    warned = any('maximum iteration' in str(w.message) for w in rec)
    return z, warned


def check(case, ctx):
    import torch, fggs
    spec = case['spec']
    feats = gen_fgg.spec_features(spec)
    if 'recursive' not in feats:
        ctx.label('not-recursive'); ctx.skip('drawn spec not recursive')
        return
    ctx.label(*feats)
    if has_weight_one_cycle(spec): ctx.label('weight-one-cycle')
    comps, g = gen_fgg.sccs(spec)
    if len([c for c in comps if len(c) > 1 or next(iter(c)) in g[next(iter(c))]]) >= 2: ctx.label('two-cyclic-sccs')
    linexp = linear_expectation(spec)
    start = spec['start']
    reach = gen_fgg.reachable_nts(spec)
    cyclic_reachable = bool(gen_fgg.cyclic_nts(spec) & reach)
    refs = {}
    nontrivial = False

    def get_ref(kind):
        if kind in refs: return refs[kind]
        if kind == 'bool':
            x, rounds = admit.bool_reference(spec)
            refs[kind] = None if rounds is None else {'spec': spec, 'x': x}
        elif kind == 'viterbi':
            x, rounds = admit.viterbi_reference(spec)
            refs[kind] = None if rounds is None else {'spec': spec, 'x': x}
        else:
            if 'reallog' not in refs:
                s, fp, h = admit.admit(spec)
                refs['reallog'] = None if s is None else {'spec': s, 'x': {k: v.numpy() for k, v in fp['x'].items()},
                                                         'rho': fp['rho_inf'], 'halvings': h}
                if s is None: ctx.skip('real/log: not admissible (divergent or rho>0.9 after 6 halvings)')
                else: ctx.label(f'halvings={h}')
            refs[kind] = refs['reallog']
        return refs[kind]

    seen = set()
    for kind, method, tol, kmax in case['configs']:
        key = (kind, method, tol, kmax)
        if key in seen: continue
        seen.add(key)
        ref = get_ref(kind)
        if ref is None:
            if kind in ('bool', 'viterbi'):
                raise AssertionError('harness: Kleene reference not stationary')  # cannot happen for weights <= 1
            continue
        s = ref['spec']
        xstar = ref['x'][start]
        dtype = torch.float64
        try:
            fgg, info = gen_fgg.build(s, kind, dtype)
        except Exception as e:
            ctx.violation('build-failed', f'{type(e).__name__}: {e}'); return
        sr = gen_fgg.make_semiring(kind, dtype)
        cfg = f'{kind}/{method}/tol={tol}/kmax={kmax}'
        ctx.label('cfg:' + kind + '/' + method)
        opts = dict(method=method, semiring=sr, tol=tol, kmax=kmax)
        if method == 'linear' and linexp != 'linear':
            if linexp == 'nonlinear':
                ctx.expect_raises(f'linear-on-nonlinear', ValueError, fggs.sum_product, fgg, **opts)
                ctx.label('linear-rejected')
            else:
                ctx.skip('linear: non-linearity only in unreachable nonterminals')
            continue
        try:
            z, warned = ctx.call('sum_product', run_lib, ctx, fgg, **opts)
        except Exception:
            ctx.violations[-1].detail['config'] = cfg
            ctx.violations[-1].detail['sr'] = kind
            ctx.violations[-1].detail['method'] = method
            continue
        if warned: ctx.label('warned')
        a = cmp.to_numpy(z)
        if not ctx.require(a.shape == np.asarray(xstar).shape, 'wrong-shape', f'[{cfg}] {a.shape}'):
            continue
        det = dict(config=cfg, sr=kind, method=method, warned=warned)
        if kind == 'bool':
            if warned:
                ctx.require(not np.any(a & ~xstar), 'bool-above-lfp', f'[{cfg}] got {a.tolist()} lfp {xstar.tolist()}', **det)
            else:
                ctx.require(np.array_equal(a, xstar), 'bool-wrong', f'[{cfg}] no warning but got {a.tolist()} expected {xstar.tolist()}', **det)
            if xstar.any(): nontrivial = True
        elif kind == 'viterbi':
            if np.isnan(a).any():
                ctx.violation('nan', f'[{cfg}] {a.tolist()}', **det); continue
            tolv = 1e-9 * (1 + np.abs(np.where(np.isinf(xstar), 0, xstar)))
            if warned:
                ctx.require(np.all(a <= np.where(np.isinf(xstar), xstar, xstar + tolv)), 'viterbi-above-lfp',
                            f'[{cfg}] warned; got {a.tolist()} lfp {xstar.tolist()}', **det)
            else:
                m = cmp.compare(a, xstar, 'viterbi', 'float64', what=f'[{cfg}] no warning: ')
                ctx.require(m is None, 'viterbi-wrong', m or '', **det)
            if np.any(np.isfinite(xstar)): nontrivial = True
        else:
            rho = ref['rho']
            scale = float(np.max(np.abs(xstar))) if xstar.size else 0.0
            slack = 1e-9 * (1 + scale)
            if kind == 'log':
                if np.isnan(a).any():
                    ctx.violation('nan', f'[{cfg}] {a.tolist()}', **det); continue
                with np.errstate(over='ignore'):
                    areal = np.exp(a)
                # the stopping rule bounds the *relative* change of every nonterminal's entries, so the absolute
                # step is bounded by the largest entry of any nonterminal (not just of the start symbol)
                scale_all = max([float(np.max(np.abs(v))) for v in ref['x'].values() if np.size(v)] + [0.0])
                bound = (scale_all * math.expm1(tol) / (1 - rho) if method != 'linear' else 0.0) + slack
                zero_ok = np.all((xstar != 0) | (a == -of.INF))
            else:
                areal = a
                bound = (tol / (1 - rho) if method != 'linear' else 0.0) + slack
                zero_ok = np.all((xstar != 0) | (a == 0))
            if np.isnan(areal).any():
                ctx.violation('nan', f'[{cfg}] {a.tolist()}', **det); continue
            if warned:
                ctx.require(np.all(areal <= xstar + slack) and np.all(areal >= 0), 'above-lfp',
                            f'[{cfg}] warned; got {areal.tolist()} lfp {xstar.tolist()}', **det)
            else:
                err = float(np.max(np.abs(areal - xstar))) if xstar.size else 0.0
                ctx.require(err <= bound, 'unconverged-without-warning',
                            f'[{cfg}] no warning, |result-x*|={err:.3e} > bound {bound:.3e} (rho={rho:.3f}); got {areal.tolist()} x*={xstar.tolist()}', **det)
                ctx.require(zero_ok, 'zero-pattern', f'[{cfg}] entries with x*=0 must be exactly zero: got {a.tolist()} x*={xstar.tolist()}', **det)
            if np.any(xstar != 0): nontrivial = True
    ctx.nontrivial = bool(nontrivial and cyclic_reachable)


def route(case, v):
    return None


def selfcheck():
    of.selfcheck()
