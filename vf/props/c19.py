"""C19  Strongly connected components are correct and dependency-ordered."""
from __future__ import annotations
import itertools
from hypothesis import strategies as st

ID = 'C19'
RULE = ("digraphs (self-loops, isolated vertices, explicit key/neighbour insertion order) enumerated "
        "exhaustively for n<=4 (quick) / n<=5 (thorough) under seed-selected key orders, plus random "
        "digraphs n<=8/10 and generated HRG specs (a third with an edit history: nonterminal edges added to right-hand sides and removed again; half re-queried after a rule already in the grammar got a nonterminal edge added or removed) for nonterminal_graph; oracle = boolean transitive "
        "closure; non-trivial = >=3 vertices, some component of size>=2 and an edge between two different "
        "components (HRG cases: >=2 nonterminals and >=1 nonterminal edge); distinct by canonical case hash "
        "(enumerated graphs are distinct by construction)")
ASSUMPTIONS = ["graph is a closed adjacency mapping Dict[v, Dict[v, None]] (every successor is a key), as "
               "nonterminal_graph produces", "vertex keys are hashable ints/strings"]
ESSENTIAL_LABELS = ['comp>=2', 'cross-edge', 'self-loop', 'isolated', 'hrg', 'hrg-removed-edge', 'hrg-edited-after-query']


def budget(tier):
    return {'examples': 4000 if tier == 'quick' else 120000, 'shrink_calls': 300}


# ------------------------------------------------------------------ oracle O5

def closure(n, adj_bits):
    """adj_bits[v] = bitmask of successors. Returns reach bitmasks (reflexive-transitive)."""
    reach = [adj_bits[v] | (1 << v) for v in range(n)]
    for k in range(n):
        rk = reach[k]
        bit = 1 << k
        for i in range(n):
            if reach[i] & bit:
                reach[i] |= rk
    return reach


def judge(n, adj_bits, order, nbr_order, comps_getter, ctx):
    """Build the mapping in the given insertion orders, call scc, compare with the closure."""
    from fggs.utils import scc
    names = order  # vertex i is inserted as key names[i]; names is a permutation / renaming
    g = {}
    for v in order:
        succ = [w for w in nbr_order[v] if adj_bits[v] >> w & 1] if nbr_order else \
               [w for w in range(n) if adj_bits[v] >> w & 1]
        g[v] = {w: None for w in succ}
    snapshot = {v: list(d) for v, d in g.items()}
    comps = ctx.call('scc', scc, g)
    ok = True
    ok &= ctx.require({v: list(d) for v, d in g.items()} == snapshot and list(g) == list(snapshot),
                      'input-mutated', 'scc modified its argument')
    seen = []
    for c in comps:
        seen.extend(list(c))
    ok &= ctx.require(sorted(seen) == list(range(n)), 'not-partition',
                      f'components {[(list(c)) for c in comps]} are not a partition of 0..{n-1}')
    if not ok:
        return False
    reach = closure(n, adj_bits)
    comp_of = {}
    for i, c in enumerate(comps):
        for v in c:
            comp_of[v] = i
    for u in range(n):
        for v in range(n):
            mutual = bool(reach[u] >> v & 1) and bool(reach[v] >> u & 1)
            if mutual != (comp_of[u] == comp_of[v]):
                ctx.violation('wrong-components', f'{u},{v}: mutually reachable={mutual} but comps {comps}')
                return False
    for u in range(n):
        for w in range(n):
            if adj_bits[u] >> w & 1 and comp_of[w] > comp_of[u]:
                ctx.violation('wrong-order', f'edge {u}->{w} goes from component {comp_of[u]} into later {comp_of[w]}')
                return False
    ctx.subchecks += 3
    return True


def features(n, adj_bits):
    reach = closure(n, adj_bits)
    big = cross = loop = iso = False
    for u in range(n):
        if adj_bits[u] >> u & 1: loop = True
        if adj_bits[u] == 0 and not any(adj_bits[w] >> u & 1 for w in range(n)): iso = True
        for v in range(n):
            if u != v:
                mutual = (reach[u] >> v & 1) and (reach[v] >> u & 1)
                if mutual: big = True
                if adj_bits[u] >> v & 1 and not mutual: cross = True
    return big, cross, loop, iso


_PERMS = {n: list(itertools.permutations(range(n))) for n in range(0, 6)}


def bits_of(n, idx):
    mask = (1 << n) - 1
    return [(idx >> (n * v)) & mask for v in range(n)]


def check(case, ctx):
    kind = case['kind']
    if kind == 'block':
        n, lo, hi, seed = case['n'], case['lo'], case['hi'], case['seed']
        perms = _PERMS[n]
        norders = len(perms) if n <= 3 else case.get('orders', 2)
        for idx in range(lo, hi):
            adj = bits_of(n, idx)
            big, cross, loop, iso = features(n, adj)
            for j in range(norders):
                p = perms[j] if n <= 3 else perms[(idx * 7 + seed * 3 + j * 11) % len(perms)]
                ctx.extra_evals += 1
                if not judge(n, adj, list(p), None, None, ctx):
                    ctx.violations[-1].detail['subcase'] = {
                        'kind': 'digraph', 'n': n, 'adj': [[w for w in range(n) if adj[v] >> w & 1] for v in range(n)],
                        'order': list(p)}
                    return
            if n >= 3 and big and cross:
                ctx.extra_nontrivial += 1
        ctx.label(f'exhaustive-n={n}')
        return
    if kind == 'digraph':
        n = case['n']
        adj_lists = case['adj']
        adj = [sum(1 << w for w in set(adj_lists[v])) for v in range(n)]
        order = case.get('order') or list(range(n))
        nbr = {v: list(dict.fromkeys(adj_lists[v])) for v in range(n)}
        big, cross, loop, iso = features(n, adj)
        ctx.label('comp>=2' if big else None, 'cross-edge' if cross else None,
                  'self-loop' if loop else None, 'isolated' if iso else None, f'n={n}')
        judge(n, adj, order, nbr, None, ctx)
        ctx.nontrivial = n >= 3 and big and cross
        return
    if kind == 'hrg':
        from . import c19_hrg
        return c19_hrg.check(case, ctx)
    raise ValueError(kind)


def enumerate_cases(tier, shard, nshards):
    import os
    seed = int(os.environ.get('VERIF_SEED', '1') or '1')
    nmax = 4 if tier == 'quick' else 5
    blocks = []
    for n in range(0, nmax + 1):
        total = 1 << (n * n)
        bs = 256 if n <= 4 else 8192
        for lo in range(0, total, bs):
            blocks.append({'kind': 'block', 'n': n, 'lo': lo, 'hi': min(total, lo + bs), 'seed': seed,
                           'orders': 2 if n == 4 else 1})
    for i, b in enumerate(blocks):
        if i % nshards == shard:
            yield b


def exhaustive_note(tier):
    n = 4 if tier == 'quick' else 5
    return (f"all labelled digraphs with self-loops on 0..{n} vertices (2^(n^2) each; n<=3 under every key "
            f"order, n=4 under 2 and n=5 under 1 seed-selected key order) completed")


@st.composite
def digraphs(draw, nmax):
    n = draw(st.integers(0, nmax))
    dens = draw(st.sampled_from([0.1, 0.2, 0.35, 0.6]))
    adj = []
    for v in range(n):
        row = [w for w in range(n) if draw(st.floats(0, 1)) < dens]
        row = draw(st.permutations(row)) if row else row
        adj.append(list(row))
    order = list(draw(st.permutations(list(range(n)))))
    return {'kind': 'digraph', 'n': n, 'adj': adj, 'order': order}


def strategy(tier):
    nmax = 8 if tier == 'quick' else 10
    try:
        from . import c19_hrg
        hrg = c19_hrg.strategy(tier)
        return st.one_of(digraphs(nmax), digraphs(nmax), hrg)
    except ImportError:
        return digraphs(nmax)


def route(case, v):
    return None


def selfcheck():
    # oracle sanity: closure on a 3-cycle plus tail
    r = closure(4, [0b0010, 0b0100, 0b0001, 0b0001])
    assert r[0] == 0b0111 and r[3] == 0b1111, r
