"""C19, grammar part: nonterminal_graph and the keys of sum_products."""
from __future__ import annotations
from hypothesis import strategies as st
from .. import gen_fgg


def strategy(tier):
    @st.composite
    def cases(draw):
        spec = draw(gen_fgg.specs(recursive=draw(st.booleans()), weights=(0.0, 0.25, 0.5), max_nts=4, max_dom=2, max_edges=3, max_nodes=4))
        # edit history: some rules had a nonterminal edge (to an existing nonterminal, or -- removed before the rule was added --
        # to a label the grammar never sees) that was removed again
        ghosts = {}
        if spec['rules'] and draw(st.integers(0, 2)) == 0:
            for ri in range(len(spec['rules'])):
                if draw(st.integers(0, 2)) == 0:
                    when = draw(st.sampled_from(['before', 'after']))
                    lab = draw(st.sampled_from(sorted(spec['nonterminals']) + (['ZZ'] if when == 'before' else [])))
                    ghosts[str(ri)] = {'label': lab, 'when': when}
        # a later edit of a rule that already belongs to the grammar, after the grammar has been queried once:
        # add a nonterminal edge to / remove one from its right-hand side, then query again
        edit = None
        if spec['rules'] and draw(st.booleans()):
            edit = {'rule': draw(st.integers(0, len(spec['rules']) - 1)), 'how': draw(st.sampled_from(['add', 'add', 'remove'])),
                    'label': draw(st.sampled_from(sorted(spec['nonterminals']))), 'pick': draw(st.integers(0, 7))}
        return {'kind': 'hrg', 'spec': spec, 'order': draw(st.integers(0, 5)), 'ghosts': ghosts, 'edit': edit}
    return cases()


def check(case, ctx):
    import torch, fggs, warnings
    from fggs.utils import nonterminal_graph, scc
    spec = case['spec']
    try:
        fgg, info = gen_fgg.build(spec, 'real', torch.float64, ghosts=case.get('ghosts'))
    except Exception as e:
        ctx.violation('build-failed', f'{type(e).__name__}: {e}'); return
    if not verify(ctx, fgg, spec): return
    ctx.label('hrg-removed-edge' if info.get('ghosts') else None)
    ctx.label('hrg', 'hrg-recursive' if gen_fgg.is_recursive(spec) else None, 'hrg-ruleless-nt' if any(not gen_fgg.rules_of(spec, x) for x in spec['nonterminals']) else None)
    ctx.nontrivial = len(spec['nonterminals']) >= 2 and any(e['label'] in spec['nonterminals'] for r in spec['rules'] for e in r['edges'])
    ed = case.get('edit')
    if ed:
        import copy
        spec2 = copy.deepcopy(spec)
        r2 = spec2['rules'][ed['rule']]; ri = info['rules'][ed['rule']]
        if ed['how'] == 'add':
            ty = spec['nonterminals'][ed['label']]
            att = []
            for nlab in ty:
                c = [j for j, l in enumerate(r2['nodes']) if l == nlab]
                if not c: att = None; break
                att.append(c[ed['pick'] % len(c)])
            if att is None: return
            e = fggs.Edge(info['els'][ed['label']], [ri['nodes'][a] for a in att])
            ctx.call('rhs.add_edge', ri['rule'].rhs.add_edge, e)
            r2['edges'].append({'label': ed['label'], 'att': att})
        else:
            ks = [k for k, e in enumerate(r2['edges']) if e['label'] in spec['nonterminals']]
            if not ks: return
            k = ks[ed['pick'] % len(ks)]
            ctx.call('rhs.remove_edge', ri['rule'].rhs.remove_edge, ri['edges'][k])
            del r2['edges'][k]
        ctx.label('hrg-edited-after-query')
        verify(ctx, fgg, spec2)


def verify(ctx, fgg, spec):
    import torch, fggs, warnings
    from fggs.utils import nonterminal_graph, scc
    g = ctx.call('nonterminal_graph', nonterminal_graph, fgg)
    want_keys = set(spec['nonterminals'])
    ok = ctx.require({k.name for k in g} == want_keys and len(g) == len(want_keys), 'nonterminal_graph-keys',
                     f'keys {sorted(k.name for k in g)} != nonterminals {sorted(want_keys)}')
    want_edges = {(r['lhs'], e['label']) for r in spec['rules'] for e in r['edges'] if e['label'] in spec['nonterminals']}
    got_edges = {(x.name, y.name) for x in g for y in g[x]}
    ok &= ctx.require(got_edges == want_edges, 'nonterminal_graph-edges', f'edges {sorted(got_edges)} != {sorted(want_edges)}')
    ok &= ctx.require(all(y in g for x in g for y in g[x]), 'nonterminal_graph-not-closed', '')
    if not ok: return False
    comps = ctx.call('scc', scc, g)
    flat = [x.name for c in comps for x in c]
    ctx.require(sorted(flat) == sorted(want_keys), 'not-partition', f'{flat}')
    comp_of = {x.name: i for i, c in enumerate(comps) for x in c}
    own, graph = gen_fgg.sccs(spec)
    own_of = {x: c for c in own for x in c}
    for x in want_keys:
        for y in want_keys:
            ctx.require((comp_of[x] == comp_of[y]) == (own_of[x] == own_of[y]), 'wrong-components', f'{x},{y}')
    for (x, y) in want_edges:
        ctx.require(comp_of[y] <= comp_of[x], 'wrong-order', f'{x} depends on {y} but its component comes earlier')
    # every nonterminal receives a value
    with warnings.catch_warnings():
        warnings.simplefilter('ignore')
        zs = ctx.call('sum_products', fggs.sum_products, fgg, method='fixed-point', kmax=30, tol=1e-3, semiring=fggs.RealSemiring(dtype=torch.float64))
    ctx.require({el.name for el in zs if el.is_nonterminal} == want_keys, 'sum_products-keys',
                f'{sorted(el.name for el in zs if el.is_nonterminal)} != {sorted(want_keys)}')
    return True
