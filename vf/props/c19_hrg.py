"""C19, grammar part: nonterminal_graph and the keys of sum_products."""
from __future__ import annotations
from hypothesis import strategies as st
from .. import gen_fgg


def strategy(tier):
    @st.composite
    def cases(draw):
        spec = draw(gen_fgg.specs(recursive=draw(st.booleans()), weights=(0.0, 0.25, 0.5), max_nts=4, max_dom=2, max_edges=3, max_nodes=4))
        # edit history: some rules had a nonterminal edge (to an existing nonterminal, or -- removed before the rule was added --
        # to a label the grammar never sees) that was removed again
        ghosts = {}
        if spec['rules'] and draw(st.integers(0, 2)) == 0:
            for ri in range(len(spec['rules'])):
                if draw(st.integers(0, 2)) == 0:
                    when = draw(st.sampled_from(['before', 'after']))
                    lab = draw(st.sampled_from(sorted(spec['nonterminals']) + (['ZZ'] if when == 'before' else [])))
                    ghosts[str(ri)] = {'label': lab, 'when': when}
        return {'kind': 'hrg', 'spec': spec, 'order': draw(st.integers(0, 5)), 'ghosts': ghosts}
    return cases()


def check(case, ctx):
    import torch, fggs, warnings
    from fggs.utils import nonterminal_graph, scc
    spec = case['spec']
    try:
        fgg, info = gen_fgg.build(spec, 'real', torch.float64, ghosts=case.get('ghosts'))
    except Exception as e:
        ctx.violation('build-failed', f'{type(e).__name__}: {e}'); return
    g = ctx.call('nonterminal_graph', nonterminal_graph, fgg)
    want_keys = set(spec['nonterminals'])
    ok = ctx.require({k.name for k in g} == want_keys and len(g) == len(want_keys), 'nonterminal_graph-keys',
                     f'keys {sorted(k.name for k in g)} != nonterminals {sorted(want_keys)}')
    want_edges = {(r['lhs'], e['label']) for r in spec['rules'] for e in r['edges'] if e['label'] in spec['nonterminals']}
    got_edges = {(x.name, y.name) for x in g for y in g[x]}
    ok &= ctx.require(got_edges == want_edges, 'nonterminal_graph-edges', f'edges {sorted(got_edges)} != {sorted(want_edges)}')
    ok &= ctx.require(all(y in g for x in g for y in g[x]), 'nonterminal_graph-not-closed', '')
    if not ok: return
    comps = ctx.call('scc', scc, g)
    flat = [x.name for c in comps for x in c]
    ctx.require(sorted(flat) == sorted(want_keys), 'not-partition', f'{flat}')
    comp_of = {x.name: i for i, c in enumerate(comps) for x in c}
    own, graph = gen_fgg.sccs(spec)
    own_of = {x: c for c in own for x in c}
    for x in want_keys:
        for y in want_keys:
            ctx.require((comp_of[x] == comp_of[y]) == (own_of[x] == own_of[y]), 'wrong-components', f'{x},{y}')
    for (x, y) in want_edges:
        ctx.require(comp_of[y] <= comp_of[x], 'wrong-order', f'{x} depends on {y} but its component comes earlier')
    # every nonterminal receives a value
    with warnings.catch_warnings():
        warnings.simplefilter('ignore')
        zs = ctx.call('sum_products', fggs.sum_products, fgg, method='fixed-point', kmax=30, tol=1e-3, semiring=fggs.RealSemiring(dtype=torch.float64))
    ctx.require({el.name for el in zs if el.is_nonterminal} == want_keys, 'sum_products-keys',
                f'{sorted(el.name for el in zs if el.is_nonterminal)} != {sorted(want_keys)}')
    ctx.label('hrg-removed-edge' if info.get('ghosts') else None)
    ctx.label('hrg', 'hrg-recursive' if gen_fgg.is_recursive(spec) else None, 'hrg-ruleless-nt' if any(not gen_fgg.rules_of(spec, x) for x in want_keys) else None)
    ctx.nontrivial = len(want_keys) >= 2 and len(want_edges) >= 1
