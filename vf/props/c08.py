"""C08  The four semirings obey the semiring laws on their whole value domain."""
from __future__ import annotations
import math, itertools
from fractions import Fraction
from decimal import Decimal, getcontext, localcontext
import numpy as np
from hypothesis import strategies as st
from .. import gen_pattern as gp

ID = 'C08'
RULE = ("vectors of <=8 carrier triples (x,y,z) + naturals (m,n<=50) per semiring and dtype (float64/float32): carriers mix "
        "zero, one, the infinite element, small integers, dyadic rationals, arbitrary finite floats, subnormals, values "
        "within 2 ulp of the radius of convergence and huge values; Bool: all 8 triples in every case (exhaustive). Laws: "
        "commutativity, identities, annihilation (incl. 0*inf), add_ = add: bit-exact; sum = fold of add, associativity, "
        "distributivity, from_int homomorphism, sub(x,y)+y=x (y<=x): 4 ulp (Real) / 8*eps*max(1,|.|) absolute (Log), judged "
        "only where exact partial results (fractions) neither overflow nor underflow; star against the closed form of the "
        "least solution (decimal arithmetic, 60-420 digits, for Log); Tensor vs PatternedTensor (typed patterns whose dense twins are the "
        "same vectors, zero or foreign default; equal shapes or one operand with fewer dimensions that the operation broadcasts; also same-pattern pairs) agreement of add/mul/sub. non-trivial = triple has >=2 distinct elements and "
        "one of {zero, infinite element, value within 2 ulp of the radius of convergence, patterned operand}; distinct by case hash")
ASSUMPTIONS = ["Real carrier is [0,inf]; Log/Viterbi carrier is [-inf,inf] without NaN", "IEEE range effects (overflow, underflow, "
               "subnormal results) are not law violations: such triples are skipped for the inexact laws and counted",
               "transcendental references use decimal arithmetic at 60 (420 near the radius) digits, rounded once"]
ESSENTIAL_LABELS = ['has-zero', 'has-inf', 'near-radius', 'patterned-operand', 'subnormal', 'huge', 'broadcast-left', 'broadcast-right', 'common-pattern']
KINDS = ['real', 'log', 'viterbi', 'bool']
getcontext().prec = 60

REAL_SPECIAL = [0.0, 1.0, math.inf, 2.0, 3.0, 0.5, 0.25, 1 - 2**-53, 1 + 2**-52, 1 - 2**-52, 5e-324, 2.2250738585072014e-308,
                1e-300, 1e300, 1.7e308, 1.7976931348623157e308, 0.1, 7.0, 1e-30, 1e30]
LOG_SPECIAL = [-math.inf, 0.0, math.inf, -1.0, 1.0, -0.5, 2.0, -5e-324, 5e-324, -1e-300, -1e300, 1e300, -745.0, 709.0,
               -2**-52, 2**-52, -2**-53, -1e-10, -30.0, -0.6931471805599453, 3.0, -1.7e308]


def budget(tier):
    return {'examples': 2400 if tier == 'quick' else 120000, 'shrink_calls': 300}


def carrier(kind):
    if kind == 'real':
        return st.one_of(st.sampled_from(REAL_SPECIAL), st.sampled_from(REAL_SPECIAL),
                         st.floats(min_value=0.0, allow_nan=False, allow_infinity=True),
                         st.integers(0, 20).map(float), st.integers(0, 64).map(lambda k: k / 16))
    return st.one_of(st.sampled_from(LOG_SPECIAL), st.sampled_from(LOG_SPECIAL),
                     st.floats(allow_nan=False, allow_infinity=True), st.floats(min_value=-40, max_value=40, allow_nan=False),
                     st.integers(-20, 20).map(float))


@st.composite
def cases(draw, tier):
    kind = draw(st.sampled_from(KINDS))
    if kind == 'bool':
        trip = list(itertools.product([False, True], repeat=3))
        dtype = 'bool'
    else:
        dtype = draw(st.sampled_from(['float64', 'float64', 'float32']))
        k = draw(st.integers(1, 8))
        c = carrier(kind)
        trip = [[draw(c), draw(c), draw(c)] for _ in range(k)]
    xs, ys, zs = [t[0] for t in trip], [t[1] for t in trip], [t[2] for t in trip]
    m, n = draw(st.integers(0, 50)), draw(st.integers(0, 50))
    # patterned operands: two typed patterns of one shape whose physical values come from the carrier
    nd = draw(st.sampled_from([1, 2, 2, 3]))
    tys = [draw(gp.types(max_numel=8 if nd < 3 else 4, depth=2)) for _ in range(nd)]
    # shapes: equal, or one operand has fewer (trailing) dimensions and is broadcast by the operation
    tya = tyb = tys
    shape = draw(st.integers(0, 5))
    if nd > 1 and shape == 0: tyb = tys[draw(st.integers(1, nd)):]
    if nd > 1 and shape == 1: tya = tys[draw(st.integers(1, nd)):]
    twin = draw(st.integers(0, 3)) == 0 and tya is tyb      # same pattern, other values and default
    untyped = False
    if not twin and tya is tyb and draw(st.integers(0, 3)) == 0:
        # "of any pattern": the two operands decompose the same dimensions differently (blocks that start at the same offset
        # but differ in length, overlapping blocks); add/mul/sub go through anti-unification, which must generalise soundly
        def alt(n):
            if n < 2 or draw(st.integers(0, 3)) == 0: return ['atom', n]
            a = draw(st.integers(1, n - 1))
            if n - a >= 2 and draw(st.booleans()):
                b = draw(st.integers(1, n - a - 1))
                return ['sum', [['atom', a], ['atom', b], ['atom', n - a - b]]]
            return ['sum', [['atom', a], ['atom', n - a]]]
        tya = [alt(gp.numel(T)) for T in tys]
        tyb = [alt(gp.numel(T)) for T in tys]
        untyped = True
    if kind == 'bool':
        pa = draw(gp.tensor_specs(tya, dtype='bool'))
        pb = dict(pa, phys=[draw(st.booleans()) for _ in pa['phys']], default=draw(st.booleans())) if twin else draw(gp.tensor_specs(tyb, dtype='bool'))
    else:
        zero = 0.0 if kind == 'real' else -math.inf
        vals = tuple(REAL_SPECIAL if kind == 'real' else LOG_SPECIAL)
        dfl = (zero, zero, zero, 1.0 if kind == 'real' else 0.0, 3.0 if kind == 'real' else -2.0)
        pa = draw(gp.tensor_specs(tya, values=vals, defaults=dfl, dtype=dtype, p_reuse=0.6 if twin else 0.25))
        pb = dict(pa, phys=[draw(st.sampled_from(vals)) for _ in pa['phys']], default=draw(st.sampled_from(dfl))) if twin else \
            draw(gp.tensor_specs(tyb, values=vals, defaults=dfl, dtype=dtype))
    return {'kind': kind, 'dtype': dtype, 'xs': xs, 'ys': ys, 'zs': zs, 'm': m, 'n': n, 'pa': pa, 'pb': pb, 'untyped_pair': untyped}


def strategy(tier):
    return cases(tier)


# ------------------------------------------------------------------ exact helpers

def finfo(dtn):
    import torch
    fi = torch.finfo(getattr(torch, dtn))
    return fi.eps, fi.tiny, fi.max


def in_range(fr, tiny, mx):
    """exact value (Fraction) is 0 or comfortably inside the normal range"""
    if fr == 0: return True
    a = abs(fr)
    return Fraction(tiny) * 16 <= a <= Fraction(mx) / 16


def ext_add(a, b):
    if a == 'inf' or b == 'inf': return 'inf'
    return a + b


def ext_mul(a, b):
    if a == 0 or b == 0: return Fraction(0)
    if a == 'inf' or b == 'inf': return 'inf'
    return a * b


def to_ext(v):
    return 'inf' if v == math.inf else Fraction(v)


def ulps_close(a, b, eps, n=4):
    """|a-b| <= n ulp (relative), infinities equal."""
    if a == b: return True
    if math.isinf(a) or math.isinf(b) or math.isnan(a) or math.isnan(b): return False
    return abs(a - b) <= n * eps * max(abs(a), abs(b))


def abs_close(a, b, eps, scale, n=8):
    if a == b: return True
    if math.isinf(a) or math.isinf(b) or math.isnan(a) or math.isnan(b): return False
    return abs(a - b) <= n * eps * max(1.0, scale)


def log_star_ref(x):
    """-log(1 - e^x) for x < 0, by decimal arithmetic."""
    # precision must exceed the number of leading nines of e^x: x may be as small as -5e-324
    with localcontext() as c:
        # ... and, for very negative x, the number of leading zeros of e^x (1 - e^x must keep ~20 digits of e^x itself)
        c.prec = (60 + min(400, int(abs(x) / 2.302) + 1)) if x < -1e-20 else 420
        d = Decimal(x)
        e = d.exp()
        return float(-(Decimal(1) - e).ln())


def bits_equal(a, b):
    import torch
    if a.dtype == torch.bool: return bool(torch.equal(a, b))
    return bool(torch.equal(a, b)) or bool(((a == b) | (a.isnan() & b.isnan())).all())


def check(case, ctx):
    import torch, fggs
    from .. import gen_fgg
    kind, dtn = case['kind'], case['dtype']
    dtype = gp.torch_dtype(dtn)
    sr = gen_fgg.make_semiring(kind, dtype if kind != 'bool' else None)
    X = torch.tensor(case['xs'], dtype=dtype); Y = torch.tensor(case['ys'], dtype=dtype); Z = torch.tensor(case['zs'], dtype=dtype)
    if kind == 'real':
        # float32 cast can turn a tiny positive value into 0 and a huge one into inf: that is the carrier element we test
        pass
    zero = sr.from_int(0); one = sr.from_int(1)
    ctx.label('kind:' + kind, 'dtype:' + dtn)
    call = ctx.call
    add = lambda a, b: call('add', sr.add, a, b)
    mul = lambda a, b: call('mul', sr.mul, a, b)

    def nonan(t, what):
        if t.dtype != torch.bool and bool(t.isnan().any()):
            ctx.violation('nan', f'{what} produced NaN: {t.tolist()} for x={X.tolist()} y={Y.tolist()} z={Z.tolist()}', law=what)
            return False
        return True

    # ---- exact laws (bit-exact)
    xy, yx = add(X, Y), add(Y, X)
    ctx.require(bits_equal(xy, yx), 'add-not-commutative', f'{X.tolist()} + {Y.tolist()}: {xy.tolist()} vs {yx.tolist()}', law='comm-add')
    mxy, myx = mul(X, Y), mul(Y, X)
    nonan(mxy, 'mul'); nonan(xy, 'add')
    ctx.require(bits_equal(mxy, myx), 'mul-not-commutative', f'{X.tolist()} * {Y.tolist()}: {mxy.tolist()} vs {myx.tolist()}', law='comm-mul')
    ctx.require(bits_equal(add(X, zero.expand_as(X)), X) and bits_equal(add(zero.expand_as(X), X), X), 'add-identity',
                f'x + 0 != x for {X.tolist()}: {add(X, zero.expand_as(X)).tolist()}', law='id-add')
    ctx.require(bits_equal(mul(X, one.expand_as(X)), X) and bits_equal(mul(one.expand_as(X), X), X), 'mul-identity',
                f'x * 1 != x for {X.tolist()}: {mul(X, one.expand_as(X)).tolist()}', law='id-mul')
    ctx.require(bits_equal(mul(X, zero.expand_as(X)), zero.expand_as(X)) and bits_equal(mul(zero.expand_as(X), X), zero.expand_as(X)),
                'zero-not-annihilating', f'x * 0 != 0 for {X.tolist()}: {mul(X, zero.expand_as(X)).tolist()}', law='annihilate')
    inf_el = {'real': math.inf, 'log': math.inf, 'viterbi': math.inf}.get(kind)
    if inf_el is not None:
        I = torch.full_like(X, inf_el)
        ctx.require(bits_equal(mul(I, zero.expand_as(X)), zero.expand_as(X)), 'zero-times-inf', f'inf * 0 = {mul(I, zero.expand_as(X)).tolist()}', law='annihilate-inf')
    a_ = X.clone(); call('add_', sr.add_, a_, Y)
    ctx.require(bits_equal(a_, xy), 'add_-differs-from-add', f'{a_.tolist()} vs {xy.tolist()}', law='add_')
    ctx.require(bits_equal(sr.from_int(0), zero) and bits_equal(one, sr.from_int(1)), 'from_int-identities', '', law='from_int')

    eps, tiny, mx = finfo(dtn) if kind != 'bool' else (0, 0, 0)
    xs = [float(v) for v in X.tolist()] if kind != 'bool' else X.tolist()
    ys = [float(v) for v in Y.tolist()] if kind != 'bool' else Y.tolist()
    zs = [float(v) for v in Z.tolist()] if kind != 'bool' else Z.tolist()

    # ---- sum = fold of add
    if len(xs) >= 1:
        S = call('sum', sr.sum, torch.stack([X, Y, Z]), 0)
        F = add(add(X, Y), Z)
        for i in range(len(xs)):
            if kind in ('bool', 'viterbi'):
                ok = bool(S[i] == F[i])
            elif kind == 'real':
                tot = ext_add(ext_add(to_ext(xs[i]), to_ext(ys[i])), to_ext(zs[i]))
                if tot != 'inf' and not in_range(tot, tiny, mx): ctx.skip('sum: out of exact range'); continue
                ok = ulps_close(float(S[i]), float(F[i]), eps)
            else:
                fin = [abs(v) for v in (xs[i], ys[i], zs[i]) if math.isfinite(v)]
                if fin and max(fin) > mx / 16: ctx.skip('sum: huge log value'); continue
                ok = abs_close(float(S[i]), float(F[i]), eps, max(fin) if fin else 1.0)
            ctx.require(ok, 'sum-differs-from-add', f'sum({xs[i]},{ys[i]},{zs[i]}) = {float(S[i])} vs fold {float(F[i])}', law='sum')

    # ---- associativity, distributivity
    A1, A2 = add(add(X, Y), Z), add(X, add(Y, Z))
    M1, M2 = mul(mul(X, Y), Z), mul(X, mul(Y, Z))
    D1, D2 = mul(X, add(Y, Z)), add(mul(X, Y), mul(X, Z))
    for t, w in ((A1, 'assoc-add'), (M1, 'assoc-mul'), (D1, 'distrib'), (D2, 'distrib')): nonan(t, w)
    nontriv = False
    for i in range(len(xs)):
        x, y, z = xs[i], ys[i], zs[i]
        if kind in ('bool', 'viterbi'):
            if kind == 'viterbi':
                fin = [abs(v) for v in (x, y, z) if math.isfinite(v)]
                exact_ok = not fin or sum(fin) < mx / 16
            else:
                exact_ok = True
            ctx.require(A1[i] == A2[i], 'add-not-associative', f'({x},{y},{z}): {A1[i].item()} vs {A2[i].item()}', law='assoc-add')
            if exact_ok:
                if kind == 'viterbi':
                    sc = max([abs(v) for v in (x, y, z) if math.isfinite(v)] or [1.0])
                    ctx.require(abs_close(float(M1[i]), float(M2[i]), eps, sc), 'mul-not-associative', f'({x},{y},{z}): {M1[i].item()} vs {M2[i].item()}', law='assoc-mul')
                    ctx.require(abs_close(float(D1[i]), float(D2[i]), eps, sc), 'not-distributive', f'({x},{y},{z}): {D1[i].item()} vs {D2[i].item()}', law='distrib')
                else:
                    ctx.require(M1[i] == M2[i], 'mul-not-associative', f'({x},{y},{z})', law='assoc-mul')
                    ctx.require(D1[i] == D2[i], 'not-distributive', f'({x},{y},{z})', law='distrib')
            else:
                ctx.skip('viterbi: huge values')
        elif kind == 'real':
            ex, ey, ez = to_ext(x), to_ext(y), to_ext(z)
            parts_add = [ext_add(ex, ey), ext_add(ey, ez), ext_add(ext_add(ex, ey), ez)]
            parts_mul = [ext_mul(ex, ey), ext_mul(ey, ez), ext_mul(ext_mul(ex, ey), ez)]
            parts_dis = [ext_add(ey, ez), ext_mul(ex, ext_add(ey, ez)), ext_mul(ex, ey), ext_mul(ex, ez)]
            rng = lambda ps: all(p == 'inf' or in_range(p, tiny, mx) for p in ps)
            if rng(parts_add):
                ctx.require(ulps_close(float(A1[i]), float(A2[i]), eps), 'add-not-associative', f'({x},{y},{z}): {A1[i].item()} vs {A2[i].item()}', law='assoc-add')
            else: ctx.skip('real assoc-add: out of exact range')
            if rng(parts_mul):
                ctx.require(ulps_close(float(M1[i]), float(M2[i]), eps), 'mul-not-associative', f'({x},{y},{z}): {M1[i].item()} vs {M2[i].item()}', law='assoc-mul')
            else: ctx.skip('real assoc-mul: out of exact range')
            if rng(parts_dis):
                ctx.require(ulps_close(float(D1[i]), float(D2[i]), eps), 'not-distributive', f'({x},{y},{z}): {D1[i].item()} vs {D2[i].item()}', law='distrib')
            else: ctx.skip('real distrib: out of exact range')
        else:  # log
            fin = [abs(v) for v in (x, y, z) if math.isfinite(v)]
            sc = max(fin or [1.0])
            if sum(fin) > mx / 16: ctx.skip('log: huge values'); continue
            ctx.require(abs_close(float(A1[i]), float(A2[i]), eps, sc), 'add-not-associative', f'({x},{y},{z}): {A1[i].item()} vs {A2[i].item()}', law='assoc-add')
            ctx.require(abs_close(float(M1[i]), float(M2[i]), eps, sc), 'mul-not-associative', f'({x},{y},{z}): {M1[i].item()} vs {M2[i].item()}', law='assoc-mul')
            ctx.require(abs_close(float(D1[i]), float(D2[i]), eps, 2 * sc), 'not-distributive', f'({x},{y},{z}): {D1[i].item()} vs {D2[i].item()}', law='distrib')
        # classes
        if kind != 'bool':
            zero_v = 0.0 if kind == 'real' else -math.inf
            radius = 1.0 if kind == 'real' else 0.0
            trip = (x, y, z)
            hz = zero_v in trip; hi = math.inf in trip
            nr = any(math.isfinite(v) and abs(v - radius) <= 2 * eps * max(1.0, abs(radius)) for v in trip)
            ctx.label('has-zero' if hz else None, 'has-inf' if hi else None, 'near-radius' if nr else None,
                      'subnormal' if any(v != 0 and math.isfinite(v) and abs(v) < tiny for v in trip) else None,
                      'huge' if any(math.isfinite(v) and abs(v) > 1e30 for v in trip) else None)
            if len(set(trip)) >= 2 and (hz or hi or nr): nontriv = True
        else:
            nontriv = True

    # ---- sub(x,y)+y = x whenever y <= x
    lo = torch.minimum(X, Y) if kind != 'bool' else (X & Y)
    hi = torch.maximum(X, Y) if kind != 'bool' else (X | Y)
    d = call('sub', sr.sub, hi, lo)
    if nonan(d, 'sub'):
        back = add(d, lo)
        for i in range(len(xs)):
            h, l = (float(hi[i]), float(lo[i])) if kind != 'bool' else (bool(hi[i]), bool(lo[i]))
            if kind in ('bool', 'viterbi'):
                ok = bool(back[i] == hi[i])
            elif kind == 'real':
                if math.isfinite(h) and h != 0 and not in_range(Fraction(h), tiny, mx): ctx.skip('sub: out of exact range'); continue
                if math.isfinite(l) and l != 0 and not in_range(Fraction(l), tiny, mx): ctx.skip('sub: out of exact range'); continue
                ok = ulps_close(float(back[i]), h, eps)
            else:
                if math.isfinite(h) and abs(h) > mx / 16: ctx.skip('sub: huge log value'); continue
                ok = abs_close(float(back[i]), h, eps, abs(h) if math.isfinite(h) else 1.0)
            ctx.require(ok, 'sub-law', f'sub({h},{l}) + {l} = {back[i].item()} != {h} (sub = {d[i].item()})', law='sub')

    # ---- from_int is a homomorphism
    m, n = case['m'], case['n']
    fm, fn, fs, fp = sr.from_int(m), sr.from_int(n), sr.from_int(m + n), sr.from_int(m * n)
    s2, p2 = add(fm, fn), mul(fm, fn)
    if kind in ('bool', 'viterbi'):
        ctx.require(bits_equal(fs, s2) and bits_equal(fp, p2), 'from_int-not-homomorphic', f'm={m} n={n}: {fs.item()} vs {s2.item()}; {fp.item()} vs {p2.item()}', law='from_int')
    elif kind == 'real':
        ctx.require(float(fs) == m + n and float(fp) == m * n and ulps_close(float(s2), m + n, eps) and ulps_close(float(p2), m * n, eps),
                    'from_int-not-homomorphic', f'm={m} n={n}', law='from_int')
    else:
        ctx.require(abs_close(float(fs), float(s2), eps, 10) and abs_close(float(fp), float(p2), eps, 10) and
                    (abs_close(float(fs), math.log(m + n), eps, 10) if m + n > 0 else float(fs) == -math.inf),
                    'from_int-not-homomorphic', f'm={m} n={n}: {fs.item()} vs {s2.item()}; {fp.item()} vs {p2.item()}', law='from_int')

    # ---- star = least solution of y = 1 + x y
    st_ = call('star', sr.star, X)
    if nonan(st_, 'star'):
        for i in range(len(xs)):
            x = xs[i]
            got = st_[i].item()
            if kind == 'bool':
                ok = got is True or got == True
                want = True
            elif kind == 'viterbi':
                want = math.inf if x > 0 else 0.0
                ok = got == want
            elif kind == 'real':
                if x >= 1: want = math.inf; ok = got == want
                else:
                    want = float(1 / (1 - Fraction(x)))
                    ok = ulps_close(got, want, eps) if want < mx / 16 else (got == math.inf or ulps_close(got, want, eps))
            else:
                if x >= 0: want = math.inf; ok = got == want
                elif x == -math.inf: want = 0.0; ok = got == 0.0
                else:
                    want = log_star_ref(x)
                    if want > mx / 16: ok = True
                    # results below the smallest normal number are subject to underflow (stated assumption): absolute slack `tiny`
                    else: ok = abs(got - want) <= 16 * eps * abs(want) + tiny + (0 if want else eps)
                    if not math.isfinite(want): ok = got == want
            ctx.require(ok, 'star-not-least-solution', f'star({x}) = {got}, least solution of y=1+xy is {want}', law='star')

    # ---- Tensor vs PatternedTensor agreement
    try:
        pa, pb = gp.build_pt(case['pa']), gp.build_pt(case['pb'])
    except Exception as e:
        ctx.violation('construct-failed', f'{type(e).__name__}: {e}'); return
    da, db = gp.dense_torch(case['pa']), gp.dense_torch(case['pb'])
    patterned = gp.is_structured(case['pa']) or gp.is_structured(case['pb'])
    if patterned: ctx.label('patterned-operand'); nontriv = True
    if case.get('untyped_pair'): ctx.label('differently-decomposed-operands')
    if da.ndim != db.ndim: ctx.label('broadcast-left' if da.ndim < db.ndim else 'broadcast-right')
    if patterned and case['pa']['vaxes'] == case['pb']['vaxes'] and case['pa']['paxes'] == case['pb']['paxes']: ctx.label('common-pattern')
    for name in ('add', 'mul', 'sub'):
        f = getattr(sr, name)
        try:
            rd = call(f'{name}(Tensor)', f, da.clone(), db.clone())
            rp = call(f'{name}(PatternedTensor)', f, pa, pb)
            rpd = call('to_dense', rp.to_dense)
        except Exception:
            ctx.violations[-1].detail['law'] = 'repr-' + name
            continue
        if tuple(rpd.shape) != tuple(rd.shape):
            ctx.violation('tensor-vs-patterned', f'{name}: shapes {tuple(rpd.shape)} vs {tuple(rd.shape)}', law='repr-' + name); continue
        if kind in ('bool', 'viterbi', 'real') and name != 'sub' or kind in ('bool', 'viterbi'):
            ok = bits_equal(rpd, rd)
        else:
            a = rpd.to(torch.float64); b = rd.to(torch.float64)
            same_special = bool(((a == b) | (a.isnan() & b.isnan()) | (a.isfinite() & b.isfinite())).all())
            fin = a.isfinite() & b.isfinite()
            ok = same_special and bool(((a[fin] - b[fin]).abs() <= 4 * eps * torch.maximum(a[fin].abs(), b[fin].abs()).clamp_min(1.0)).all())
        ctx.require(ok, 'tensor-vs-patterned', f'{kind}.{name}: patterned {rpd.tolist()} vs tensor {rd.tolist()} (operands {da.tolist()} , {db.tolist()})', law='repr-' + name)
    ctx.nontrivial = nontriv


def route(case, v):
    return None


def selfcheck():
    assert abs(log_star_ref(-30.0) - 9.357622968840613e-14) < 1e-27
    assert abs(log_star_ref(-1e-10) - (-math.log(-math.expm1(-1e-10)))) < 1e-12
    assert abs(log_star_ref(-107.0) / (-math.log1p(-math.exp(-107.0))) - 1) < 1e-15     # needs > 47 + 16 digits
    assert log_star_ref(-700.0) > 0 and abs(log_star_ref(-700.0) / math.exp(-700.0) - 1) < 1e-14
    assert abs(log_star_ref(-2.843714484292364e-237) - 544.6675559249898) < 1e-9
    assert ext_mul(Fraction(0), 'inf') == 0 and ext_add(Fraction(1), 'inf') == 'inf'
