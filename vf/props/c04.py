"""C04  viterbi returns a well-formed derivation of maximal weight."""
from __future__ import annotations
import itertools, math
import numpy as np
from hypothesis import strategies as st
from .. import gen_fgg, oracle_fgg as of, cmp, admit

ID = 'C04'
RULE = ("G1 specs with log-weights (recursive specs: real weights in {0,.1,.25,.5,1} so log-weights <= 0 incl. exact-0 "
        "cycles; non-recursive specs: also weights > 1) x every start assignment whose reference Viterbi value is finite; "
        "oracle = own well-formedness predicate on the returned FGGDerivation tree + own weight of the derivation + own "
        "evaluation of derive()'s factor graph, all equal to the exact max-plus reference (Kleene) and to "
        "sum_product(ViterbiSemiring); ties: only weights compared. non-trivial = derivation has >=2 rule instances or "
        "the chosen rule had a competitor with a different value; distinct by case hash")
ASSUMPTIONS = ["log-weights <= 0 for recursive specs (finite, attained maximum)", "float64",
               "weight tolerance 1e-9*(1+|w|)"]
ESSENTIAL_LABELS = ['weights-require-grad', 'patterned-weight', 'recursive', 'edgeless-external', 'disconnected-internal', 'all-attached-external',
                    'repeated-attachment', 'size1-domain', 'deriv>=2', 'competitor']


def budget(tier):
    return {'examples': 800 if tier == 'quick' else 15000, 'shrink_calls': 200}


@st.composite
def cases(draw, tier):
    rec = draw(st.booleans())
    if rec:
        wts = (0.0, 0.1, 0.25, 0.5, 0.5, 1.0, 1.0)
        base = gen_fgg.specs(recursive=True, weights=wts, max_nts=3, max_dom=3 if tier == 'quick' else 4, max_edges=3, max_nodes=5,
                             nt_arities=(0, 1, 1, 2, 3), start_arity=(0, 0, 1, 2, 3))
    else:
        wts = (0.0, 0.1, 0.25, 0.5, 1.0, 2.0, 3.0)
        base = gen_fgg.specs(recursive=False, weights=wts, max_nts=4, max_dom=3 if tier == 'quick' else 4,
                             nt_arities=(0, 1, 1, 2, 3), start_arity=(0, 0, 1, 2, 3))
    spec = draw(gen_fgg.patterned(base, weights=wts) if draw(st.integers(0, 2)) == 0 else base)
    # the grammar being decoded is often the one being trained: weights that require gradients are legitimate input
    return {'spec': spec, 'requires_grad': draw(st.integers(0, 2)) == 0}


def strategy(tier):
    return cases(tier)


def reference(spec):
    if gen_fgg.is_recursive(spec):
        x, rounds = admit.viterbi_reference(spec)
        return x if rounds is not None else None
    return of.NumEval(spec, of.MaxPlusOps).nonrecursive()


class Malformed(Exception):
    pass


def deriv_weight(d, fgg, nt, ext_vals, info_by_rule, spec, logw, depth=0, counter=None):
    """Well-formedness (raises Malformed) and own log-weight of a derivation subtree for nonterminal nt
    whose external nodes must take ext_vals."""
    import fggs
    if depth > 200:
        raise Malformed('derivation deeper than 200 (cyclic?)')
    if counter is not None: counter[0] += 1
    rules = fgg.rules(nt)
    idx = [i for i, r in enumerate(rules) if r is d.rule]
    if not idx:
        raise Malformed(f'rule used for {nt.name} is not one of fgg.rules({nt.name})')
    rule = d.rule
    rhs = rule.rhs
    nodes = list(rhs.nodes())
    if set(d.asst.keys()) != set(nodes):
        missing = [str(v) for v in nodes if v not in d.asst]
        extra = [str(v) for v in d.asst if v not in set(nodes)]
        raise Malformed(f'assignment not total on the rule nodes: missing {missing} extra {extra}')
    for v in nodes:
        val = d.asst[v]
        size = fgg.domains[v.label.name].size()
        if not (isinstance(val, int) and not isinstance(val, bool) and 0 <= val < size):
            raise Malformed(f'value {val!r} of node {v} not an int in range({size})')
    if tuple(d.asst[v] for v in rhs.ext) != tuple(ext_vals):
        raise Malformed(f'external nodes have values {tuple(d.asst[v] for v in rhs.ext)}, parent says {tuple(ext_vals)}')
    nt_edges = [e for e in rhs.edges() if e.label.is_nonterminal]
    if set(d.children.keys()) != set(nt_edges) or len(d.children) != len(nt_edges):
        raise Malformed(f'children keys are not exactly the nonterminal edges of the rule')
    w = 0.0
    for e in rhs.edges():
        vals = tuple(d.asst[v] for v in e.nodes)
        if e.label.is_terminal:
            t = logw[e.label.name]
            w += float(t[vals]) if vals else float(t)
        else:
            w += deriv_weight(d.children[e], fgg, e.label, vals, info_by_rule, spec, logw, depth + 1, counter)
    return w


def check(case, ctx):
    import torch, fggs
    spec = case['spec']
    feats = gen_fgg.spec_features(spec)
    ctx.label(*feats)
    ref = reference(spec)
    if ref is None:
        raise AssertionError('harness: viterbi reference not stationary')
    start = spec['start']
    best = np.asarray(ref[start])
    try:
        fgg, info = gen_fgg.build(spec, 'viterbi', torch.float64)
    except Exception as e:
        ctx.violation('build-failed', f'{type(e).__name__}: {e}'); return
    logw = {n: np.log(np.asarray(t['weights'], dtype=np.float64)) if True else None for n, t in spec['terminals'].items()}
    if case.get('requires_grad'):
        for f_ in fgg.factors.values(): f_.weights.requires_grad_()
        ctx.label('weights-require-grad')
    shape = best.shape
    assts = list(itertools.product(*[range(s) for s in shape]))
    finite = [a for a in assts if np.isfinite(best[a] if a else best)]
    if not finite:
        ctx.label('no-finite-start-assignment'); ctx.skip('no start assignment with a finite optimum')
        return
    if len(finite) > 4:
        finite = finite[:2] + finite[-2:]
    # sum_product in the Viterbi semiring at those cells
    sp = None
    try:
        sp = cmp.to_numpy(ctx.call('sum_product[viterbi]', fggs.sum_product, fgg, semiring=fggs.ViterbiSemiring(dtype=torch.float64), method='fixed-point'))
    except Exception:
        pass
    nontriv = False
    for a in finite:
        opt = float(best[a] if a else best)
        tol = 1e-9 * (1 + abs(opt))
        if sp is not None:
            ctx.require(abs(float(sp[a] if a else sp) - opt) <= tol, 'sum_product-differs',
                        f'sum_product(Viterbi)[{a}]={float(sp[a] if a else sp)} reference {opt}')
        try:
            d = ctx.call('viterbi', fggs.viterbi, fgg, tuple(a), semiring=fggs.ViterbiSemiring(dtype=torch.float64))
        except Exception:
            ctx.violations[-1].detail['asst'] = list(a)
            continue
        counter = [0]
        try:
            w = deriv_weight(d, fgg, fgg.start, a, None, spec, logw, 0, counter)
        except Malformed as m:
            ctx.violation('malformed-derivation', f'start asst {a}: {m}')
            continue
        except RecursionError:
            ctx.violation('malformed-derivation', f'start asst {a}: derivation tree is cyclic / too deep')
            continue
        ctx.subchecks += 1
        if not ctx.require(abs(w - opt) <= tol, 'suboptimal-derivation',
                           f'start asst {a}: derivation has log-weight {w}, optimum is {opt}'):
            continue
        if counter[0] >= 2:
            ctx.label('deriv>=2'); nontriv = True
        # competitor: the start nonterminal has >= 2 rules with different values at this cell
        ev = of.NumEval(spec, of.MaxPlusOps)
        vals = []
        for r in gen_fgg.rules_of(spec, start):
            rv = ev.rule_value(r, ref)
            vals.append(float(rv[a] if a else rv))
        if len(set(vals)) >= 2:
            ctx.label('competitor'); nontriv = True
        # derive()
        try:
            g, asst = ctx.call('derive', d.derive)
        except Exception:
            continue
        ok = ctx.require(all(e.label.is_terminal for e in g.edges()), 'derive-has-nonterminal', 'derived graph has a nonterminal edge')
        ok &= ctx.require(set(asst.keys()) == set(g.nodes()), 'derive-assignment-not-total',
                          f'{len(asst)} assigned of {len(g.nodes())} nodes')
        if not ok: continue
        total = 0.0
        try:
            for e in g.edges():
                vals_ = tuple(asst[v] for v in e.nodes)
                t = logw[e.label.name]
                total += float(t[vals_]) if vals_ else float(t)
        except Exception as ex:
            ctx.violation('derive-assignment-bad', f'{type(ex).__name__}: {ex}'); continue
        ctx.require(abs(total - opt) <= tol, 'derive-weight', f'derive() graph+assignment has log-weight {total}, optimum {opt}')
        ctx.require(len(list(g.edges())) == sum(1 for _ in g.edges()), 'x', '')
    ctx.nontrivial = nontriv


def route(case, v):
    return None


def selfcheck():
    of.selfcheck()
