"""C11  Solver options change cost, never the answer."""
from __future__ import annotations
import json, math, os, subprocess, sys, tempfile, warnings
import numpy as np
from hypothesis import strategies as st
from .. import gen_fgg, oracle_fgg as of, admit, cmp
from ..core import _jsonable, _unjsonable, VERIF_DIR, REPO_DIR

ID = 'C11'
RULE = ("G1 specs (recursive and not, incl. rules with >=3 edges and edgeless nodes, typed patterned weights) rescaled until an "
        "independent reference finds a finite least fixed point with Jacobian inf-norm <= 0.9; per spec the full cross product "
        "{Real,Log,Viterbi,Bool} x {fixed-point,newton,linear where linearly recursive} x j_precompute on/off x "
        "{float64,float32}, with gradients for Real/Log (float64): every configuration must agree with the independent "
        "reference within the derived bound tol/(1-rho) (values; float32: 1e-3) and 1e-6 (gradients), hence with every other "
        "configuration; Log = log(Real), Bool = (Real>0), Viterbi <= Log; interpreter clause: batches of specs are evaluated by one "
        "driver under python, python -O and python -OO (and through bin/sum_product.py -OO) and must give the same output (numbers up to 1e-9 relative); bin/sum_product.py <json> -d -G is run the same three ways and must print the in-process value. "
        "non-trivial = cyclic SCC and a rule with >=3 edges or an edgeless node; distinct by case hash")
ASSUMPTIONS = ["only specs with finite Z and rho_inf(J(x*)) <= 0.9 are judged", "float64 runs use tol=1e-10, float32 runs tol=1e-5 and are compared at 1e-3",
               "gradient tolerance |g-g_ref| <= 1e-6*|g_ref| + 1e-8*(1+max|g_ref|) + 4*|g(x*)-g(x*-4B)| (float64 only; B = derived fixed-point bound, the last term is the oracle's own first-order sensitivity of the gradient to the fixed point)",
               "the -O/-OO comparison sees assertion-dependent behaviour on the generated inputs, not assertion-dependent code that does not execute"]
ESSENTIAL_LABELS = ['recursive', 'rule>=3edges', 'jp:True', 'dtype:float32', 'interpreter-batch', 'bin-script', 'patterned-weight']
KINDS = ['real', 'log', 'viterbi', 'bool']
METHODS = ['fixed-point', 'newton', 'linear']


def budget(tier):
    return {'examples': 200 if tier == 'quick' else 4000, 'shrink_calls': 120}


@st.composite
def one_spec(draw, tier):
    rec = draw(st.integers(0, 3)) > 0
    base = gen_fgg.specs(recursive=rec, weights=(0.0, 0.25, 0.5, 0.5, 1.0, 1.0), max_nts=3, max_dom=2 if tier == 'quick' else 3,
                         max_edges=4, max_nodes=6)
    spec = draw(gen_fgg.patterned(base, weights=(0.0, 0.25, 0.5, 1.0), p_bcast=0.0) if draw(st.integers(0, 2)) == 0 else base)
    if spec['rules'] and draw(st.integers(0, 4)) == 0:
        gen_fgg.inject_dead_rule(draw, spec)       # a rule without any derivation listed before the live rules (J_log's None branches)
    return spec


@st.composite
def cases(draw, tier):
    if draw(st.integers(1, 48 if tier == 'quick' else 12)) == 7:
        n = 10 if tier == 'quick' else 16       # few batches, many specs each: the cost of a batch is three interpreter start-ups
        return {'kind': 'batch', 'specs': [draw(one_spec(tier)) for _ in range(n)], 'bin': draw(st.booleans())}
    return {'kind': 'single', 'spec': draw(one_spec(tier))}


def strategy(tier):
    return cases(tier)


def references(spec):
    """(admitted spec, {kind: {nt: array}}, rho, fp) or None"""
    s, fp, h = admit.admit(spec)
    if s is None: return None
    real = {k: v.numpy() for k, v in fp['x'].items()}
    with np.errstate(divide='ignore'):
        logr = {k: np.log(v) for k, v in real.items()}
    # Viterbi reference only for weights <= 1 (admitted spec has weights <= original <= 1)
    vit, rounds = admit.viterbi_reference(s)
    boo, rounds_b = admit.bool_reference(s)
    return s, {'real': real, 'log': logr, 'viterbi': vit if rounds is not None else None, 'bool': boo}, fp['rho_inf'], fp


def grad_reference(spec, fp, kind):
    import torch
    te = fp['te']
    start = spec['start']
    names = list(spec['terminals'])
    Z = fp['x'][start]
    if kind == 'real':
        g = te.gradients(fp['vec'], fp['J'], torch.ones_like(Z), start, names)
        return {n: v.numpy() for n, v in g.items()}
    mask = Z > 0
    c_eff = torch.where(mask, 1.0 / torch.where(mask, Z, torch.ones_like(Z)), torch.zeros_like(Z))
    g = te.gradients(fp['vec'], fp['J'], c_eff, start, names)
    return {n: (v * te.w[n]).numpy() for n, v in g.items()}


def all_configs(spec):
    lin = gen_fgg.is_linear(spec)
    out = []
    for kind in KINDS:
        for method in METHODS:
            if method == 'linear' and not lin: continue
            for jp in (False, True):
                for dt in (('float64', 'float32') if kind != 'bool' else ('float64',)):
                    out.append((kind, method, jp, dt))
    out.sort(key=lambda c: c[2])     # all j_precompute=False runs first: they are the differential baseline
    return out


def check(case, ctx):
    if case['kind'] == 'batch':
        return check_batch(case, ctx)
    import torch, fggs
    spec0 = case['spec']
    feats = gen_fgg.spec_features(spec0)
    ctx.label(*feats)
    r = references(spec0)
    if r is None:
        ctx.skip('not admissible'); return
    spec, refs, rho, fp = r
    start = spec['start']
    grefs = {}
    gsens = {}
    results = {}
    failed_without_jp = set()

    def run_config(kind, method, jp, dt):
        dtype = getattr(torch, dt)
        cfg = f'{kind}/{method}/jp={jp}/{dt}'
        ctx.label(f'jp:{jp}', 'dtype:' + dt)
        tol = 1e-10 if dt == 'float64' else 1e-5
        try:
            fgg, info = gen_fgg.build(spec, kind, dtype)
        except Exception as e:
            ctx.violation('build-failed', f'{type(e).__name__}: {e}'); return
        want_grad = kind in ('real', 'log') and dt == 'float64'
        if want_grad:
            for f in fgg.factors.values(): f.weights.requires_grad_()
        try:
            with warnings.catch_warnings():
                warnings.simplefilter('ignore')
                z = ctx.call('sum_product', fggs.sum_product, fgg, method=method, semiring=gen_fgg.make_semiring(kind, dtype),
                             j_precompute=jp, tol=tol, kmax=5000)
                zd = ctx.call('to_dense', z.to_dense)
        except Exception:
            ctx.violations[-1].detail.update(config=cfg, jp=jp, method=method, sr=kind)
            return
        ref = refs[kind][start] if refs[kind] is not None else None
        a = cmp.to_numpy(zd)
        det = dict(config=cfg, jp=jp, method=method, sr=kind)
        if ref is not None:
            if kind == 'bool':
                ctx.require(a.shape == np.asarray(ref).shape and np.array_equal(a, ref), 'wrong-value', f'[{cfg}] got {a.tolist()} expected {np.asarray(ref).tolist()}', **det)
            elif kind == 'viterbi':
                m = cmp.compare(a, ref, 'viterbi', dt, what=f'[{cfg}] ')
                ctx.require(m is None, 'wrong-value', m or '', **det)
            else:
                xs = refs['real'][start]
                scale_all = max([float(np.max(np.abs(v))) for v in refs['real'].values() if np.size(v)] + [0.0])
                if np.isnan(a).any():
                    ctx.violation('nan', f'[{cfg}] {a.tolist()}', **det); return
                areal = a if kind == 'real' else np.exp(a)
                if dt == 'float64':
                    bound = (tol / (1 - rho) if kind == 'real' else scale_all * math.expm1(tol) / (1 - rho)) + 1e-9 * (1 + scale_all)
                else:
                    bound = 1e-3 * (1 + scale_all)
                err = float(np.max(np.abs(areal - xs))) if xs.size else 0.0
                ctx.require(areal.shape == xs.shape and err <= bound, 'wrong-value',
                            f'[{cfg}] |result-x*|={err:.3e} > {bound:.3e}; got {areal.tolist()} x*={xs.tolist()}', **det)
                ctx.require(bool(np.all((xs != 0) | (areal == 0))), 'zero-pattern', f'[{cfg}] got {areal.tolist()} x*={xs.tolist()}', **det)
        results[(kind, method, jp, dt)] = a
        if want_grad:
            # a result that is not connected to the autograd graph means: every gradient is zero/absent (legitimate only if no
            # factor can influence the start symbol) -- judged against the reference like any other gradient
            connected = bool(zd.requires_grad)
            if kind == 'log' and not bool((zd > -math.inf).any()): return      # log Z = -inf: no derivative to speak of
            try:
                if not connected: raise StopIteration
                with warnings.catch_warnings():
                    warnings.simplefilter('ignore')
                    if kind == 'real': f_ = zd.sum()
                    else:
                        mask = zd > -math.inf
                        if not bool(mask.any()): return
                        f_ = zd[mask].sum()
                    ctx.call('backward', f_.backward)
            except StopIteration:
                pass
            except Exception:
                ctx.violations[-1].detail.update(config=cfg, jp=jp, method=method, sr=kind)
                return
            if kind not in grefs:
                grefs[kind] = grad_reference(spec, fp, kind)
                # derived allowance: the library's fixed point is only within B of x*, and the gradient is a smooth function of it
                scale_all_ = max([float(np.max(np.abs(v))) for v in refs['real'].values() if np.size(v)] + [0.0])
                B = (1e-10 / (1 - rho)) if kind == 'real' else scale_all_ * math.expm1(1e-10) / (1 - rho)
                gsens[kind] = admit.gradient_sensitivity(fp, start, torch.ones_like(fp['x'][start]), list(spec['terminals']), 4 * B + 1e-13 * scale_all_, log_domain=(kind == 'log'))
            for n, fac in fgg.factors.items():
                want = grefs[kind][n]
                g = fac.weights.grad if connected else None
                gd = np.zeros_like(want) if g is None else cmp.to_numpy(ctx.call('grad.to_dense', g.to_dense))
                sel = ~np.isnan(gd)
                if kind == 'log': sel &= (np.asarray(spec['terminals'][n]['weights'], dtype=float) > 0)
                if not sel.any(): continue
                scale = float(np.max(np.abs(want[sel])))
                ok = gd.shape == want.shape and bool(np.all(np.abs(gd[sel] - want[sel]) <= 1e-6 * np.abs(want[sel]) + 1e-8 * (1 + scale) + 4 * gsens[kind][n][sel]))
                ctx.require(ok, 'wrong-gradient', f'[{cfg}] d/d{n}: got {gd.tolist()} expected {want.tolist()} (allowance for the fixed-point error: {(4 * gsens[kind][n]).tolist()})', factor=n, **det)
    for kind, method, jp, dt in all_configs(spec):
        before = len(ctx.violations)
        run_config(kind, method, jp, dt)
        new_v = ctx.violations[before:]
        if new_v and not jp:
            failed_without_jp.add((kind, method, dt))
        if new_v and jp and (kind, method, dt) not in failed_without_jp:
            # fails only with j_precompute=True while the identical configuration without it passes: the failure is
            # attributable to the J_precompute_products call site
            for v in new_v:
                v.kind = 'jp-only:' + v.kind
                v.detail['jp_only'] = True
    # cross-semiring relations (float64, fixed-point, jp=False as representatives)
    rr = results.get(('real', 'fixed-point', False, 'float64')); ll = results.get(('log', 'fixed-point', False, 'float64'))
    vv = results.get(('viterbi', 'fixed-point', False, 'float64')); bb = results.get(('bool', 'fixed-point', False, 'float64'))
    if rr is not None and ll is not None:
        # both runs are within their derived bounds of x*; so exp(Log) and Real differ by at most the sum of the two bounds
        scale_all_ = max([float(np.max(np.abs(v))) for v in refs['real'].values() if np.size(v)] + [0.0])
        b_sum = 1e-10 / (1 - rho) + scale_all_ * math.expm1(1e-10) / (1 - rho) + 2e-9 * (1 + scale_all_)
        with np.errstate(over='ignore'):
            el = np.exp(ll)
        ok = el.shape == rr.shape and not np.isnan(el).any() and bool(np.all(np.abs(el - rr) <= b_sum)) and np.array_equal(np.isinf(el), np.isinf(rr))
        ctx.require(ok, 'log-not-log-of-real', f'exp(Log) {el.tolist()} vs Real {rr.tolist()} (allowed difference {b_sum:.3e})')
    if rr is not None and bb is not None:
        ctx.require(np.array_equal(bb, rr > 0) or bool(np.all((rr > 0) >= bb) and np.all(bb | (rr < 1e-9))), 'bool-not-support', f'bool {bb.tolist()} real {rr.tolist()}')
    if ll is not None and vv is not None:
        ctx.require(bool(np.all(vv <= ll + 1e-9 * (1 + np.abs(np.where(np.isinf(ll), 0, ll))))), 'viterbi-exceeds-log', f'viterbi {vv.tolist()} log {ll.tolist()}')
    cyc = bool(gen_fgg.cyclic_nts(spec) & gen_fgg.reachable_nts(spec))
    ctx.nontrivial = cyc and bool(feats & {'rule>=3edges', 'disconnected-internal', 'edgeless-external'})


def check_batch(case, ctx):
    """Interpreter clause: the same driver under python, python -O, python -OO."""
    ctx.label('interpreter-batch')
    items = []
    for spec0 in case['specs']:
        r = references(spec0)
        if r is None: continue
        spec = r[0]
        cfgs = [c for c in all_configs(spec) if c[3] == 'float64' and c[0] in ('real', 'log', 'viterbi')]
        if len(case['specs']) > 4:
            # keep each j_precompute=True run together with its j_precompute=False twin (needed for the D15 routing)
            keep = [c for c in cfgs if (c[0], c[1]) in (('real', 'newton'), ('log', 'fixed-point'), ('log', 'newton'), ('viterbi', 'fixed-point'), ('real', 'fixed-point'))]
            cfgs = [c for c in keep if not c[2] or c[0] == 'real']
        items.append({'spec': _jsonable(spec), 'configs': [list(c) for c in cfgs]})
    if not items:
        ctx.skip('batch: no admissible spec'); return
    env = dict(os.environ, PYTHONPATH=f'{REPO_DIR}:{VERIF_DIR}', OMP_NUM_THREADS='1', PYTHONWARNINGS='ignore')
    outs = {}
    with tempfile.TemporaryDirectory(prefix='c11-') as d:
        with open(os.path.join(d, 'batch.json'), 'w') as f:
            json.dump(items, f)
        for flag in ('', '-O', '-OO'):
            cmd = [sys.executable] + ([flag] if flag else []) + ['-m', 'vf.c11_driver', os.path.join(d, 'batch.json'), os.path.join(d, f'out{flag}.json')]
            p = subprocess.run(cmd, env=env, cwd=VERIF_DIR, capture_output=True, text=True, timeout=600)
            if p.returncode != 0 or not os.path.exists(os.path.join(d, f'out{flag}.json')):
                ctx.violation('driver-failed', f'python {flag}: rc={p.returncode} {p.stderr[-400:]}', flag=flag)
                return
            with open(os.path.join(d, f'out{flag}.json')) as f:
                o = json.load(f)
            if (flag == '') != bool(o['debug']):
                raise AssertionError('harness: interpreter flag not effective')
            outs[flag] = _unjsonable(o['results'])
    base = outs['']
    def twin_ok(i, key):
        # the identical configuration with j_precompute=False ran without error and identically in all interpreters
        kind, method, jp, dt = key.split('/')
        if jp != 'True': return False
        k2 = f'{kind}/{method}/False/{dt}'
        rs = [outs[f][i].get(k2) for f in ('', '-O', '-OO')]
        return all(r is not None and 'error' not in r for r in rs) and all(close_lists(rs[0]['z'], r['z']) for r in rs[1:])
    reported = set()
    for flag in ('-O', '-OO'):
        for i, (r0, r1) in enumerate(zip(base, outs[flag])):
            for key in r0:
                a, b = r0[key], r1.get(key)
                pre = 'jp-only:' if twin_ok(i, key) else ''
                if 'error' in a or (b is not None and 'error' in b):
                    ctx.require(('error' in a) == (b is not None and 'error' in b), pre + 'assert-dependent-behaviour',
                                f'spec {i} [{key}]: python gives {str(a)[:200]}, python {flag} gives {str(b)[:200]}', flag=flag, config=key, spec_index=i)
                    if 'error' in a and b is not None and 'error' in b and (i, key) not in reported:
                        reported.add((i, key))
                        ctx.violation(pre + 'driver-error', f'spec {i} [{key}]: {a["error"]}', config=key, spec_index=i)
                    continue
                ok = close_lists(a['z'], b['z']) and all(close_lists(a.get('grads', {}).get(n), b.get('grads', {}).get(n)) for n in a.get('grads', {}))
                ctx.require(ok, pre + 'assert-dependent-behaviour', f'spec {i} [{key}]: python gives {str(a)[:300]}, python {flag} gives {str(b)[:300]}', flag=flag, config=key, spec_index=i)
    ctx.nontrivial = len(items) >= 2
    if case.get('bin'):
        for it in items[:3 if case.get('bin') == 'all' else 1]:
            check_bin_script(_unjsonable(it['spec']), ctx)


def check_bin_script(spec, ctx, methods=('fixed-point', 'newton'), flags=('', '-O', '-OO')):
    """bin/sum_product.py <json> -d -G under python, -O and -OO (its shebang) must print the same, and the value must be the
    in-process one."""
    import torch, fggs
    script = os.path.join(REPO_DIR, 'bin', 'sum_product.py')
    if not os.path.exists(script):
        ctx.skip('bin/sum_product.py not present'); return
    old = torch.get_default_dtype()
    try:
        torch.set_default_dtype(torch.float64)
        fgg, info = gen_fgg.build(spec, 'real', torch.float64)
        j = fggs.fgg_to_json(fgg)
        for f_ in fgg.factors.values(): f_.weights.requires_grad_()
        with warnings.catch_warnings():
            warnings.simplefilter('ignore')
            zt = fggs.sum_product(fgg, method='fixed-point', semiring=fggs.RealSemiring(dtype=torch.float64), tol=1e-10, kmax=2000).to_dense()
            z0 = zt.detach().reshape(-1).tolist()
        differentiable = bool(zt.requires_grad)     # the script's -G path calls backward() unconditionally
        # -o <out_weights>: the cotangent of the gradient (documented for -g/-G/-e); every other batch uses it
        nstart = int(zt.numel())
        variant = (len(spec['rules']) + nstart) % 3          # 0: -G   1: -G -o   2: -w ... -g -e -o (expected counts need -w)
        use_o = variant in (1, 2); use_e = variant == 2
        # -t prints the sum-product of every nonterminal (one line each, unlabelled) instead of the start symbol's; gradients and
        # expectations must still be those of the start symbol (seeded change C03-9)
        use_t = (len(spec['terminals']) + len(spec['nonterminals'])) % 2 == 0
        ow = [0.5 + 0.25 * ((3 * i + 1) % 5) for i in range(nstart)]
        g0 = None; e0 = None
        if differentiable:
            cot = torch.tensor(ow, dtype=torch.float64).reshape(zt.shape) if use_o else torch.ones_like(zt)
            (zt * cot).sum().backward()
            g0 = {n: (f_.weights.grad.reshape(-1).tolist() if f_.weights.grad is not None else None) for n, f_ in fgg.factors.items()}
            # expected counts (-e): w * df/dw / f with f the weighted sum that was back-propagated
            fval = float((zt * cot).sum())
            e0 = {n: ((np.asarray(g0[n], dtype=float) * f_.weights.to_dense().detach().reshape(-1).numpy() / fval).tolist() if g0[n] is not None and fval > 0 else None)
                  for n, f_ in fgg.factors.items()} if use_e else None
            wjson = {n: json.dumps(f_.weights.to_dense().detach().tolist()) for n, f_ in fgg.factors.items()}
    except Exception as e:
        ctx.violation('bin-setup-failed', f'{type(e).__name__}: {e}'); return
    finally:
        torch.set_default_dtype(old)
    env = dict(os.environ, PYTHONPATH=f'{REPO_DIR}', OMP_NUM_THREADS='1', PYTHONWARNINGS='ignore')
    outs = {}
    with tempfile.TemporaryDirectory(prefix='c11bin-') as d:
        path = os.path.join(d, 'g.json')
        if fgg.factors and use_e and g0 is not None:
            # -w supplies the factors: the grammar file must not bind them itself
            j = json.loads(json.dumps(j)); j['interpretation']['factors'] = {}
        with open(path, 'w') as f: json.dump(j, f)
        for method in methods:
            for flag in flags:
                cmd = [sys.executable] + ([flag] if flag else []) + [script, path, '-m', method, '-l', '1e-10', '-k', '2000', '-d']
                if fgg.factors and use_e and g0 is not None:
                    for n_ in fgg.factors: cmd += ['-w', n_, wjson[n_]]
                    cmd += ['-g', '-e']
                elif fgg.factors:
                    cmd += ['-G']
                if use_t: cmd += ['-t']
                if use_o and fgg.factors:
                    cmd += ['-o', json.dumps(np.asarray(ow).reshape(tuple(zt.shape)).tolist())]
                p = subprocess.run(cmd, env=env, cwd=d, capture_output=True, text=True, timeout=300)
                outs[(method, flag)] = (p.returncode, p.stdout.strip())
    ctx.label('bin-script', 'bin-script-expectations' if (use_e and g0 is not None) else None)
    for method in methods:
        base = outs[(method, flags[0])]
        for flag in flags[1:]:
            ctx.require(script_outputs_agree(outs[(method, flag)], base), 'assert-dependent-behaviour',
                        f'bin/sum_product.py -m {method}: python gives rc={base[0]} {base[1][:300]!r}, python {flag} gives rc={outs[(method, flag)][0]} {outs[(method, flag)][1][:300]!r}', flag=flag)
        if ctx.require(base[0] == 0 and base[1], 'bin-script-failed', f'bin/sum_product.py -m {method}: rc={base[0]} {base[1][:300]}'):
            zlines = [l for l in base[1].splitlines() if not l.startswith('grad[') and not l.startswith('E[#')] if use_t else base[1].splitlines()[:1]
            ok = False; zf = None
            try:
                for zl in zlines:      # with -t: one of the unlabelled lines is the start symbol's
                    z = json.loads(zl)
                    zf = [z] if not isinstance(z, list) else list(np.asarray(z, dtype=float).reshape(-1))
                    ok = ok or (len(zf) == len(z0) and all(abs(a - b) <= 1e-6 * (1 + abs(b)) or (a == b) for a, b in zip(zf, z0)))
            except Exception as e:
                ctx.violation('bin-output-unparsable', f'{base[1][:200]}'); continue
            if use_t: ctx.label('bin-script-trace')
            ctx.require(ok, 'bin-value-differs', f'bin/sum_product.py -m {method} prints {zf}, in-process sum_product gives {z0}')
            # gradient lines "grad[name]: <nested list>" against the in-process gradient with the same cotangent
            if g0 is not None and fgg.factors:
                ctx.label('bin-script-out-weights' if use_o else 'bin-script-grad')
                printed = {}
                for line in base[1].splitlines()[1:]:
                    if line.startswith('grad[') and ']: ' in line:
                        name, val = line[5:].split(']: ', 1)
                        try: printed[name] = np.asarray(json.loads(val), dtype=float).reshape(-1).tolist()
                        except Exception: printed[name] = 'unparsable'
                printed_e = {}
                for line in base[1].splitlines()[1:]:
                    if line.startswith('E[#') and ']: ' in line:
                        name, val = line[3:].split(']: ', 1)
                        try: printed_e[name] = np.asarray(json.loads(val), dtype=float).reshape(-1).tolist()
                        except Exception: printed_e[name] = 'unparsable'
                for n, want in (e0 or {}).items():
                    got = printed_e.get(n)
                    if want is None: continue
                    oke = isinstance(got, list) and len(got) == len(want) and all(b != b or abs(a - b) <= 1e-5 * (1 + abs(b)) for a, b in zip(got, want))
                    ctx.require(oke, 'bin-expectation-differs', f'bin/sum_product.py -m {method}{" -o" if use_o else ""} -e: E[#{n}] printed {got}, in-process w*grad/f = {want}')
                for n, want in g0.items():
                    got = printed.get(n)
                    if want is None:
                        continue      # the factor cannot influence Z: the script prints zeros or nothing
                    okg = isinstance(got, list) and len(got) == len(want) and all(b != b or abs(a - b) <= 1e-5 * (1 + abs(b)) for a, b in zip(got, want))   # NaN = element outside a patterned weight's support (no parameter there)
                    ctx.require(okg, 'bin-gradient-differs', f'bin/sum_product.py -m {method}{" -o" if use_o else ""}: grad[{n}] printed {got}, in-process {want}')


def script_outputs_agree(a, b):
    """(rc, stdout) pairs of two runs of the script: same exit status, same lines, numbers equal up to 1e-9 relative
    (the interpreter mode changes object addresses, hence the iteration order of sets of edges and the order of
    floating-point summation: last-digit differences are not assertion-dependent behaviour)."""
    if a[0] != b[0]: return False
    la, lb = a[1].splitlines(), b[1].splitlines()
    if len(la) != len(lb): return False
    def flat(x):
        if isinstance(x, list):
            for y in x: yield from flat(y)
        else: yield x
    for x, y in zip(la, lb):
        if x == y: continue
        px, _, vx = x.rpartition(': '); py, _, vy = y.rpartition(': ')
        if px != py: return False
        try: jx, jy = json.loads(vx), json.loads(vy)
        except Exception: return False
        fx, fy = list(flat(jx)), list(flat(jy))
        if len(fx) != len(fy) or np.shape(np.asarray(jx, dtype=object)) != np.shape(np.asarray(jy, dtype=object)): return False
        for u, v in zip(fx, fy):
            if u == v or (isinstance(u, float) and isinstance(v, float) and u != u and v != v): continue
            if not (isinstance(u, (int, float)) and isinstance(v, (int, float))) or not (math.isfinite(u) and math.isfinite(v)): return False
            if abs(u - v) > 1e-9 * (1 + abs(u)): return False
    return True


def close_lists(a, b):
    if a is None or b is None: return a is None and b is None
    if len(a) != len(b): return False
    for x, y in zip(a, b):
        if isinstance(x, bool) or isinstance(y, bool):
            if x != y: return False
            continue
        if x == y or (isinstance(x, float) and isinstance(y, float) and math.isnan(x) and math.isnan(y)): continue
        if not (math.isfinite(x) and math.isfinite(y)) or abs(x - y) > 1e-9 * (1 + abs(x)): return False      # (summation order may differ between interpreter modes)
    return True


def has_multi_edge_rule(spec):
    return any(len(r['edges']) >= 2 for r in spec['rules'])


def d15_rule_faults(r):
    """The preconditions under which J_precompute_products is known to fail (D15), per rule, edges in right-hand-side order:
    P1 the first or last edge has a node that no other edge touches; P4 the first or last edge has a repeated attachment node;
    (>= 3 edges) P2 an internal node is edgeless or is summed out before some prefix/suffix step; P3 a middle edge touches an
    external node or has a repeated attachment node.  Measured on 1680 generated grammars: all 496 with a j_precompute-only failure
    satisfy one of them, all 165 multi-edge grammars satisfying none of them pass."""
    edges = r['edges']; m = len(edges)
    if m < 2: return set()
    ext_nodes = set(r['ext'])
    out = set()
    def others(i): return set(a for j, e in enumerate(edges) if j != i for a in e['att'])
    for i in (0, m - 1):
        if set(edges[i]['att']) - others(i): out.add('P1')
        if len(set(edges[i]['att'])) < len(edges[i]['att']): out.add('P4')
    if m >= 3:
        allatt = set(a for e in edges for a in e['att'])
        internal = set(range(len(r['nodes']))) - ext_nodes
        if internal - allatt: out.add('P2')
        for order in (edges, edges[::-1]):
            for k in range(1, m - 1):
                fut = set(a for e in order[k + 1:] for a in e['att'])
                cur = set(order[k]['att'])
                past = set(a for e in order[:k] for a in e['att'])
                if (past & internal) - fut - cur: out.add('P2')
        for i in range(1, m - 1):
            if set(edges[i]['att']) & ext_nodes or len(set(edges[i]['att'])) < len(edges[i]['att']): out.add('P3')
    return out


def d15_precondition(spec):
    return any(d15_rule_faults(r) for r in spec['rules'])


def route(case, v):
    """D15: j_precompute=True.  A violation is attributed to it only if (a) it occurs with j_precompute=True while the
    identical configuration with j_precompute=False passes (marked 'jp-only:' by the check) and (b) the grammar has a
    rule that satisfies one of the structural preconditions P1-P4 of the finding (d15_rule_faults); a j_precompute-only
    failure on a grammar whose rules satisfy none of them is a new violation."""
    if not v.kind.startswith('jp-only:'):
        return None
    if case['kind'] == 'single':
        return 'D15-j_precompute' if d15_precondition(case['spec']) else None
    i = v.detail.get('spec_index')
    specs = case['specs']
    # spec_index counts admissible specs only; be conservative: require every spec of the batch that could be meant
    return 'D15-j_precompute' if any(d15_precondition(sp) for sp in specs) else None


# ---- fixed cases run in every tier (shard 0): the command-line route in its three variants (-G / -G -o / -w -g -e -o) and a
# grammar whose values are far from magnitude one (an absolute tolerance must not be applied as a relative one)
_N2 = {'N0': 2}
_SPEC_B = {'node_labels': {}, 'terminals': {'c': {'type': [], 'weights': 0.5}, 'd': {'type': [], 'weights': 0.25}}, 'nonterminals': {'S': []}, 'start': 'S',
           'rules': [{'lhs': 'S', 'nodes': [], 'ext': [], 'edges': [{'label': 'S', 'att': []}, {'label': 'c', 'att': []}]},
                     {'lhs': 'S', 'nodes': [], 'ext': [], 'edges': [{'label': 'd', 'att': []}]}]}
_RULES_A = [{'lhs': 'S', 'nodes': ['N0'], 'ext': [], 'edges': [{'label': 'X', 'att': [0]}, {'label': 'b', 'att': [0]}]},
            {'lhs': 'X', 'nodes': ['N0', 'N0'], 'ext': [0], 'edges': [{'label': 'a', 'att': [0, 1]}, {'label': 'X', 'att': [1]}]},
            {'lhs': 'X', 'nodes': ['N0'], 'ext': [0], 'edges': [{'label': 'b', 'att': [0]}]}]
_SPEC_A = {'node_labels': dict(_N2), 'terminals': {'a': {'type': ['N0', 'N0'], 'weights': [[0.2, 0.3], [0.1, 0.4]]}, 'b': {'type': ['N0'], 'weights': [1.0, 0.5]}},
           'nonterminals': {'S': [], 'X': ['N0']}, 'start': 'S', 'rules': _RULES_A}
_SPEC_C = {'node_labels': dict(_N2), 'terminals': {'a': {'type': ['N0', 'N0'], 'weights': [[0.2, 0.3], [0.1, 0.4]]}, 'b': {'type': ['N0'], 'weights': [1.0, 0.5]},
                                                   'e': {'type': [], 'weights': 0.125}},
           'nonterminals': {'S': [], 'X': ['N0']}, 'start': 'S', 'rules': _RULES_A + [{'lhs': 'S', 'nodes': [], 'ext': [], 'edges': [{'label': 'e', 'att': []}]}]}
_SPEC_BIG = {'node_labels': {}, 'terminals': {'a': {'type': [], 'weights': 0.9}, 'b': {'type': [], 'weights': 1e8}}, 'nonterminals': {'S': []}, 'start': 'S',
             'rules': [{'lhs': 'S', 'nodes': [], 'ext': [], 'edges': [{'label': 'S', 'att': []}, {'label': 'a', 'att': []}]},
                       {'lhs': 'S', 'nodes': [], 'ext': [], 'edges': [{'label': 'b', 'att': []}]}]}
# a two-nonterminal SCC whose base weight is exactly zero: Z = 0 but dZ/db = c / (1 - c d) (regression input of D24: fixed-point
# iteration must not stop before every nonterminal of the SCC has entered the solution)
_SPEC_ZERO_BASE = {'node_labels': {}, 'terminals': {'b': {'type': [], 'weights': 0.0}, 'c': {'type': [], 'weights': 0.5}, 'd': {'type': [], 'weights': 0.5}},
                   'nonterminals': {'X': [], 'Y': []}, 'start': 'X',
                   'rules': [{'lhs': 'X', 'nodes': [], 'ext': [], 'edges': [{'label': 'Y', 'att': []}, {'label': 'c', 'att': []}]},
                             {'lhs': 'Y', 'nodes': [], 'ext': [], 'edges': [{'label': 'X', 'att': []}, {'label': 'd', 'att': []}]},
                             {'lhs': 'Y', 'nodes': [], 'ext': [], 'edges': [{'label': 'b', 'att': []}]}]}
FIXED_CASES = [{'kind': 'batch', 'specs': [_SPEC_B, _SPEC_A, _SPEC_C], 'bin': 'all'}, {'kind': 'single', 'spec': _SPEC_BIG},
               {'kind': 'single', 'spec': _SPEC_ZERO_BASE}]


def enumerate_cases(tier, shard, nshards):
    for i, c in enumerate(FIXED_CASES):
        if i % nshards == shard: yield c


def exhaustive_note(tier):
    return "fixed cases only (the command-line route in its three variants; a grammar with values of magnitude 1e9): not an exhaustive sub-space"


CANONICAL_D15 = {'kind': 'single', 'spec': {
    'node_labels': {'N0': 2},
    'terminals': {'t0': {'type': ['N0'], 'weights': [0.25, 0.25]}, 't1': {'type': [], 'weights': 0.5},
                  't2': {'type': ['N0', 'N0'], 'weights': [[0.5, 0.25], [0.25, 0.25]]}},
    'nonterminals': {'S': []}, 'start': 'S',
    'rules': [{'lhs': 'S', 'nodes': ['N0'], 'ext': [], 'edges': [{'label': 't0', 'att': [0]}, {'label': 'S', 'att': []}, {'label': 'S', 'att': []}]},
              {'lhs': 'S', 'nodes': [], 'ext': [], 'edges': [{'label': 't1', 'att': []}]}]}}


def canonical_cases():
    return {'D15-j_precompute': CANONICAL_D15}


def selfcheck():
    of.selfcheck()
