"""C15  Hyperedge replacement is typed, fresh and order-independent."""
from __future__ import annotations
import itertools, math
import numpy as np
from hypothesis import strategies as st
from .. import gen_fgg, oracle_fgg as of, iso

ID = 'C15'
RULE = ("G1 specs + a Hypothesis-drawn derivation tree (<= 12 rule instances, rules re-used) + 2-4 linearisations of the pending "
        "nonterminal edges (pick lists) + node values; every replace_edge step is checked against a before/after snapshot (only the "
        "replaced edge disappears, k-th external identified with k-th attachment node, every other node/edge appears once as a new "
        "object with an unused id, same label and attachment order, the rest of the graph, its ext and the replacement untouched); a "
        "wrong-type replacement must raise ValueError and change nothing; the final graphs of all linearisations and an independent "
        "expansion coincide under provenance naming; derive() must give an isomorphic graph with a total assignment whose "
        "factor-weight product equals the product over the rule instances. non-trivial = >= 3 replacement steps, some rule used "
        "twice, >= 2 distinct linearisations; distinct by case hash")
ASSUMPTIONS = ["right-hand sides have pairwise distinct external nodes (as every rule built through the API by G1)",
               "isomorphism of derive()'s graph is decided by brute force when it has <= 9 nodes, otherwise by label/degree invariants + weight"]
ESSENTIAL_LABELS = ['explicit-ids', 'steps>=3', 'rule-reused', 'orders-differ', 'wrong-type-tested', 'derive-isomorphic', 'repeated-attachment']


def budget(tier):
    return {'examples': 640 if tier == 'quick' else 10000, 'shrink_calls': 200}


def min_heights(spec):
    """h[X] = height of the shallowest derivation tree of X (inf if X derives nothing)"""
    h = {x: math.inf for x in spec['nonterminals']}
    changed = True
    while changed:
        changed = False
        for r in spec['rules']:
            kids = [h[e['label']] for e in r['edges'] if e['label'] in spec['nonterminals']]
            v = 1 + (max(kids) if kids else 0)
            if v < h[r['lhs']]:
                h[r['lhs']] = v; changed = True
    return h


@st.composite
def trees(draw, spec, nt, depth, counter, h=None):
    h = h or min_heights(spec)
    def nts(i): return [e['label'] for e in spec['rules'][i]['edges'] if e['label'] in spec['nonterminals']]
    rules = [i for i, r in enumerate(spec['rules']) if r['lhs'] == nt and all(h[y] <= depth - 1 for y in nts(i))]
    if not rules:
        return None
    if counter[0] >= 9:
        # wind down: take a rule of minimal height
        best = min(1 + max([h[y] for y in nts(i)] or [0]) for i in rules)
        rules = [i for i in rules if 1 + max([h[y] for y in nts(i)] or [0]) == best]
    growing = [i for i in rules if nts(i)]
    if growing and depth > 1 and counter[0] < 7 and draw(st.integers(0, 9)) < 7:
        rules = growing
    ri = draw(st.sampled_from(rules))
    counter[0] += 1
    kids = []
    for lab in nts(ri):
        k = draw(trees(spec, lab, depth - 1, counter, h))
        if k is None: return None
        kids.append(k)
    return [ri, kids]


@st.composite
def cases(draw, tier):
    for attempt in range(4):
        spec = draw(gen_fgg.specs(recursive=draw(st.integers(0, 3)) > 0, weights=(0.25, 0.5, 1.0, 2.0, 3.0), max_nts=3, max_dom=2, max_edges=3, max_nodes=5))
        if min_heights(spec)[spec['start']] <= 6: break
    h0 = min_heights(spec)[spec['start']]
    tree = None if h0 == math.inf or h0 > 6 else draw(trees(spec, spec['start'], int(h0) + draw(st.integers(0, 3)), [0]))
    norders = draw(st.integers(2, 4 if tier == 'quick' else 8))
    picks = [[draw(st.integers(0, 11)) for _ in range(14)] for _ in range(norders)]
    vals = [draw(st.integers(0, 5)) for _ in range(24)]
    return {'spec': spec, 'tree': tree, 'picks': picks, 'vals': vals, 'wrong': draw(st.integers(0, 10 ** 6)),
            'ids': draw(st.sampled_from(['none', 'all', 'mixed'])), 'share': draw(st.booleans()), 'ext_twice': draw(st.booleans())}


def strategy(tier):
    return cases(tier)


def count_instances(tree):
    return 1 + sum(count_instances(k) for k in tree[1])


def rules_used(tree, acc):
    acc.append(tree[0])
    for k in tree[1]: rules_used(k, acc)
    return acc


def snapshot(g):
    return (list(g.nodes()), list(g.edges()), tuple(g.ext))


def same_objects(a, b):
    return len(a) == len(b) and all(x is y for x, y in zip(a, b))


def step_check(ctx, graph, edge, rep, what):
    """One replace_edge call checked against the statement. Returns (node_map, edge_map) or None."""
    import fggs
    bn, be, bext = snapshot(graph)
    rn, re_, rext = snapshot(rep)
    bids = {v.id for v in bn}; beids = {e.id for e in be}
    try:
        nm, em = ctx.call('replace_edge', fggs.replace_edge, graph, edge, rep)
    except Exception:
        return None
    an, ae, aext = snapshot(graph)
    ok = True
    ok &= ctx.require(not any(e is edge for e in ae) and not graph.has_edge_id(edge.id), 'edge-not-removed', what)
    ok &= ctx.require(all(any(e is x for x in ae) for e in be if e is not edge), 'other-edge-lost', what)
    ok &= ctx.require(all(any(v is x for x in an) for v in bn), 'node-lost', what)
    ok &= ctx.require(same_objects(aext, bext), 'graph-ext-changed', what)
    ok &= ctx.require(same_objects(snapshot(rep)[0], rn) and same_objects(snapshot(rep)[1], re_) and same_objects(snapshot(rep)[2], rext), 'replacement-mutated', what)
    if not ok: return None
    # node map
    ok &= ctx.require(len(nm) == len(rn) and all(any(k is v for k in nm) or v in nm for v in rn), 'node_map-not-total', what)
    if not ok: return None
    for k, rv in enumerate(rext):
        ok &= ctx.require(nm[rv] is edge.nodes[k], 'external-not-identified', f'{what}: external {k} mapped to {nm[rv]} instead of attachment node {edge.nodes[k]}')
    fresh = []
    for rv in rn:
        if any(rv is x for x in rext): continue
        gv = nm[rv]
        ok &= ctx.require(gv.label == rv.label, 'node-label-changed', what)
        ok &= ctx.require(gv.id not in bids and not any(gv is x for x in bn), 'node-not-fresh', f'{what}: copy of {rv} has id {gv.id} already in the graph')
        ok &= ctx.require(not any(gv is x for x in rn), 'replacement-node-reused', f'{what}: the replacement\'s own Node object was put into the graph')
        ok &= ctx.require(any(gv is x for x in an), 'new-node-not-in-graph', what)
        fresh.append(gv)
    ok &= ctx.require(len({id(v) for v in fresh}) == len(fresh) and len({v.id for v in fresh}) == len(fresh), 'fresh-nodes-not-distinct', what)
    ok &= ctx.require(len(an) == len(bn) + len(fresh), 'node-count', f'{what}: {len(bn)} nodes + {len(fresh)} new != {len(an)}')
    ok &= ctx.require(len(em) == len(re_), 'edge_map-not-total', what)
    if not ok: return None
    newe = []
    for redge in re_:
        ge = em[redge]
        ok &= ctx.require(ge.label == redge.label, 'edge-label-changed', what)
        ok &= ctx.require(len(ge.nodes) == len(redge.nodes) and all(gn is nm[rn_] for gn, rn_ in zip(ge.nodes, redge.nodes)), 'attachment-order-changed',
                          f'{what}: copy of {redge.label.name} attached to {[str(v) for v in ge.nodes]}')
        ok &= ctx.require(ge.id not in beids and not any(ge is x for x in re_), 'edge-not-fresh', what)
        ok &= ctx.require(any(ge is x for x in ae), 'new-edge-not-in-graph', what)
        newe.append(ge)
    ok &= ctx.require(len({e.id for e in newe}) == len(newe), 'fresh-edges-not-distinct', what)
    ok &= ctx.require(len(ae) == len(be) - 1 + len(newe), 'edge-count', what)
    return (nm, em) if ok else None


def canonical(names, graph):
    """(sorted nodes by provenance, sorted edge multiset) of a fully derived graph."""
    nodes = sorted((repr(names[id(v)]), v.label.name) for v in graph.nodes())
    edges = sorted((e.label.name, tuple(repr(names[id(v)]) for v in e.nodes)) for e in graph.edges())
    ext = [repr(names[id(v)]) for v in graph.ext]
    return nodes, edges, ext


def run_linearisation(ctx, fgg, info, spec, tree, picks, what):
    """Carry out the derivation in the order given by picks. Returns (graph, names) or None."""
    import fggs
    graph = ctx.call('start_graph', fggs.start_graph, fgg)
    (sedge,) = list(graph.edges())
    ok = ctx.require(sedge.label == fgg.start and len(list(graph.nodes())) == len(fgg.start.type) and
                     tuple(v.label for v in sedge.nodes) == tuple(fgg.start.type), 'start_graph-wrong', what)
    if not ok: return None
    names = {}
    root_rule = spec['rules'][tree[0]]
    for k, v in enumerate(sedge.nodes):
        names[id(v)] = ((), root_rule['ext'][k])
    keep = list(graph.nodes())    # keep objects alive so that id() stays unique
    pending = [(sedge, tree, ())]
    step = 0
    while pending:
        i = picks[step % len(picks)] % len(pending)
        edge, (ri, kids), path = pending.pop(i)
        rinfo = info['rules'][ri]
        r = step_check(ctx, graph, edge, rinfo['rule'].rhs, f'{what} step {step} (rule {ri} at {path})')
        if r is None: return None
        nm, em = r
        for j, rv in enumerate(rinfo['nodes']):
            gv = nm[rv]
            if id(gv) not in names:
                names[id(gv)] = (path, j)
            keep.append(gv)
        ci = 0
        for k, redge in enumerate(rinfo['edges']):
            if redge.label.is_nonterminal:
                pending.append((em[redge], kids[ci], path + (k,)))
                ci += 1
        step += 1
        if step > 40:
            raise AssertionError('harness: derivation does not terminate')
    return graph, names, keep, step


def check(case, ctx):
    import torch, fggs
    spec, tree = case['spec'], case['tree']
    if tree is None:
        ctx.skip('no finite derivation drawn'); return
    try:
        fgg, info = gen_fgg.build(spec, 'real', torch.float64, explicit_ids={'none': False, 'all': True, 'mixed': 'mixed'}[case.get('ids', 'none')], ext_twice=bool(case.get('ext_twice')))
    except Exception as e:
        ctx.violation('build-failed', f'{type(e).__name__}: {e}'); return
    ninst = count_instances(tree)
    used = rules_used(tree, [])
    feats = gen_fgg.spec_features(spec)
    ctx.label('explicit-ids' if case.get('ids', 'none') != 'none' else None, 'steps>=3' if ninst >= 3 else None, 'rule-reused' if len(set(used)) < len(used) else None,
              'repeated-attachment' if 'repeated-attachment' in feats else None)
    # independent expansion
    enodes, efactors, eext = of.expand(spec, tree)
    want_nodes = sorted((repr(n), lab) for n, lab in enodes.items())
    # of.expand lists only terminal factors; nonterminal-free after full derivation
    want_edges = sorted((t, tuple(repr(n) for n in ns)) for t, ns in efactors)
    results = []
    orders = []
    for oi, picks in enumerate(case['picks']):
        r = run_linearisation(ctx, fgg, info, spec, tree, picks, f'order {oi}')
        if r is None: return
        graph, names, keep, steps = r
        can = canonical(names, graph)
        results.append(can)
        orders.append(tuple(p % 12 for p in picks[:steps]))
        ctx.require(all(e.label.is_terminal for e in graph.edges()), 'nonterminal-left', f'order {oi}')
        ctx.require(can[0] == want_nodes and can[1] == want_edges, 'differs-from-expansion',
                    f'order {oi}: derived graph {can[0]} / {can[1]} differs from the independent expansion {want_nodes} / {want_edges}')
    for oi in range(1, len(results)):
        ctx.require(results[oi] == results[0], 'order-dependent', f'orders 0 and {oi} give different graphs: {results[0]} vs {results[oi]}')
    if len(set(orders)) >= 2: ctx.label('orders-differ')
    # wrong-type replacement
    g0 = fggs.start_graph(fgg)
    (sedge,) = list(g0.edges())
    wrong = [ri for ri, r in enumerate(spec['rules']) if list(spec['nonterminals'][r['lhs']]) != list(spec['nonterminals'][spec['start']])]
    if wrong:
        ri = wrong[case['wrong'] % len(wrong)]
        before = snapshot(g0)
        ctx.expect_raises('replace_edge(wrong type)', ValueError, fggs.replace_edge, g0, sedge, info['rules'][ri]['rule'].rhs)
        after = snapshot(g0)
        ctx.require(all(same_objects(a, b) for a, b in zip(before, after)), 'rejected-replacement-changed-graph', '')
        ctx.label('wrong-type-tested')
    # derive()
    vals = case['vals']
    prov_val = {}
    def value_of(name, label):
        if name not in prov_val:
            prov_val[name] = vals[len(prov_val) % len(vals)] % spec['node_labels'][label]
        return prov_val[name]
    # share: equal sub-derivations (same tree, same external values) are represented by ONE FGGDerivation object that is the
    # child of several nonterminal edges (a derivation is a value; nothing says its sub-objects must be distinct)
    share = bool(case.get('share'))
    built = {}
    def mk(tree, path, ext_names):
        d, internals = mk2(tree, path, ext_names)
        return d
    def mk2(tree, path, ext_names):
        ri, kids = tree
        r = spec['rules'][ri]; rinfo = info['rules'][ri]
        key = (repr(tree), tuple(value_of(n, r['nodes'][p]) for n, p in zip(ext_names, r['ext'])))
        if share and key in built:
            d, internals = built[key]
            for rel, j, v in internals:
                prov_val[(path + rel, j)] = v
            ctx.label('shared-subderivation-object')
            return d, internals
        internals = []
        nm = {}
        for j in range(len(r['nodes'])):
            nm[j] = (path, j)
        for k, p in enumerate(r['ext']):
            nm[p] = ext_names[k]
        asst = {rinfo['nodes'][j]: value_of(nm[j], r['nodes'][j]) for j in range(len(r['nodes']))}
        for j in range(len(r['nodes'])):
            if j not in r['ext']: internals.append(((), j, asst[rinfo['nodes'][j]]))
        children = {}
        ci = 0
        for k, e in enumerate(r['edges']):
            if e['label'] in spec['nonterminals']:
                children[rinfo['edges'][k]], sub = mk2(kids[ci], path + (k,), [nm[a] for a in e['att']])
                internals.extend(((k,) + rel, j, v) for rel, j, v in sub)
                ci += 1
        d = fggs.FGGDerivation(fgg, rinfo['rule'], asst, children)
        built[key] = (d, internals)
        return d, internals
    root = spec['rules'][tree[0]]
    deriv = mk(tree, (), [((), p) for p in root['ext']])
    try:
        dg, dasst = ctx.call('derive', deriv.derive)
    except Exception:
        return
    ok = ctx.require(all(e.label.is_terminal for e in dg.edges()), 'derive-nonterminal-left', '')
    ok &= ctx.require(set(dasst.keys()) == set(dg.nodes()) and len(dasst) == len(list(dg.nodes())), 'derive-assignment-not-total', f'{len(dasst)} values for {len(list(dg.nodes()))} nodes')
    if not ok: return
    # weight product
    logw = {n: np.asarray(t['weights'], dtype=float) for n, t in spec['terminals'].items()}
    want_w = 1.0
    for t, ns in efactors:
        idx = tuple(value_of(n, enodes[n]) for n in ns)
        want_w *= float(logw[t][idx]) if idx else float(logw[t])
    got_w = 1.0
    try:
        for e in dg.edges():
            idx = tuple(dasst[v] for v in e.nodes)
            got_w *= float(logw[e.label.name][idx]) if idx else float(logw[e.label.name])
    except Exception as ex:
        ctx.violation('derive-assignment-bad', f'{type(ex).__name__}: {ex}'); return
    ctx.require(abs(got_w - want_w) <= 1e-9 * max(1.0, abs(want_w)), 'derive-weight', f'derive(): product of factor weights {got_w}, product over rule instances {want_w}')
    # isomorphism with the provenance graph, nodes coloured by (label, value)
    names = list(enodes)
    pos = {n: i for i, n in enumerate(names)}
    g1 = {'nodes': [f'{enodes[n]}={value_of(n, enodes[n])}' for n in names], 'edges': [(t, tuple(pos[n] for n in ns)) for t, ns in efactors], 'ext': []}
    dn = list(dg.nodes())
    dpos = {id(v): i for i, v in enumerate(dn)}
    g2 = {'nodes': [f'{v.label.name}={dasst[v]}' for v in dn], 'edges': [(e.label.name, tuple(dpos[id(v)] for v in e.nodes)) for e in dg.edges()], 'ext': []}
    if len(names) <= 9:
        res = iso.isomorphic(g1, g2)
        if res is not None:
            ctx.require(res, 'derive-not-isomorphic', f'derive() graph {g2} vs expansion {g1}')
            ctx.label('derive-isomorphic')
    else:
        ctx.require(sorted(g1['nodes']) == sorted(g2['nodes']) and sorted(l for l, _ in g1['edges']) == sorted(l for l, _ in g2['edges']), 'derive-not-isomorphic', 'label/value multisets differ')
    ctx.require(tuple(dg.ext) == (), 'derive-ext', 'derived factor graph has external nodes') if False else None
    ctx.nontrivial = ninst >= 3 and len(set(used)) < len(used) and len(set(orders)) >= 2


def route(case, v):
    return None


def selfcheck():
    of.selfcheck()
