"""C07  Patterned einsum equals the semiring einsum of the dense operands."""
from __future__ import annotations
import itertools, warnings
import numpy as np
from hypothesis import strategies as st
from .. import gen_pattern as gp, oracle_fgg as of, cmp

ID = 'C07'
RULE = ("einsum signatures with <=4 indices and <=3 operands (arity 0-3, an index may repeat inside one operand, output a "
        "duplicate-free sub-list in random order, empty operand list), one index type per index (atoms/products/sums, numel "
        "<=12, zero-size atoms), operands = typed patterns of those types (also one object passed twice, or with a dimension-reversed view of itself; shared axes, sums, stride-0 broadcast views, any "
        "default) x {Real,Log,Viterbi,Bool} x requires_grad on/off (under no_grad) x {einsum, mv/mm, "
        "log_viterbi_einsum_forward}; oracle = brute-force numpy loop over all index values with 0*inf=0 on the dense twins "
        "(twins from an independent interpreter of the axis language); Viterbi variant: pointers plugged back must attain the "
        "maximum. non-trivial = >=1 summed-out index, >=2 operands sharing an index, >=1 non-dense pattern; distinct by case hash")
ASSUMPTIONS = ["operands of one equation are generated from the same index types (the module's documented precondition)",
               "operands that require grad are evaluated under torch.no_grad(), as SumProduct.forward does",
               "tolerance |a-b| <= rtol*(1+|b|), rtol 1e-9 (f64) / 1e-4 (f32); inf and zero exact",
               "library warnings 'index type mismatch' on generated operands are reported as harness errors of the generator, not violations"]
ESSENTIAL_LABELS = ['aliased-operands', 'summed-out', 'shared-index', 'structured', 'repeat-in-operand', 'zero-size', 'bcast-view', 'empty-operands', 'requires-grad']
KINDS = ['real', 'log', 'viterbi', 'bool']

VALUES = {'real': (0.0, 0.0, 0.5, 1.0, 2.0, 3.0, of.INF), 'log': (-of.INF, -of.INF, -1.5, 0.0, 0.7, 2.0, of.INF),
          'viterbi': (-of.INF, -of.INF, -1.5, 0.0, 0.7, 2.0, of.INF)}
ZERO = {'real': 0.0, 'log': -of.INF, 'viterbi': -of.INF, 'bool': False}


def budget(tier):
    return {'examples': 2400 if tier == 'quick' else 48000, 'shrink_calls': 300}


@st.composite
def cases(draw, tier):
    kind = draw(st.sampled_from(KINDS))
    mode = draw(st.sampled_from(['einsum', 'einsum', 'einsum', 'viterbi-ptr', 'mv', 'mm']))
    if mode == 'viterbi-ptr': kind = 'viterbi'
    dtype = 'bool' if kind == 'bool' else draw(st.sampled_from(['float64', 'float64', 'float32']))
    nidx = draw(st.integers(1, 4))
    pk = {}; force_alias = False
    names = ['i', 'j', 'k', 'l'][:nidx]
    tys = {n: draw(gp.types(max_numel=12 if tier == 'quick' else 16, depth=2, allow_zero=True)) for n in names}
    if draw(st.integers(0, 3)) == 0:
        tys = {n: tys[names[0]] for n in names}      # all indices of one type: operands can be each other's views
    if mode == 'mv':
        names = ['i', 'j']; tys = {n: tys.get(n) or draw(gp.types(max_numel=12)) for n in names}
        sig = [['i', 'j'], ['j']]; output = ['i']
    elif mode == 'mm':
        names = ['i', 'j', 'k']; tys = {n: tys.get(n) or draw(gp.types(max_numel=12)) for n in names}
        sig = [['i', 'j'], ['j', 'k']]; output = ['i', 'k']
    elif mode == 'viterbi-ptr' and draw(st.integers(0, 2)) == 0:
        # three output axes and a summed-out index that a shared axis (diagonal pattern) ties to one of them: its arg-max
        # is read off the output cell's own coordinates
        names = ['i', 'j', 'k', 'l']
        tk = ['atom', draw(st.sampled_from([2, 3]))]
        tys = {'i': ['atom', draw(st.sampled_from([2, 3]))], 'j': ['atom', draw(st.sampled_from([2, 3]))], 'k': tk, 'l': tk}
        if draw(st.booleans()): tys['j'] = tk
        sig = draw(st.sampled_from([[['i', 'j', 'k', 'l']], [['i', 'j', 'k'], ['k', 'l'], ['l']], [['i', 'j'], ['j', 'k', 'l'], ['l', 'k']]]))
        output = list(draw(st.permutations(['i', 'j', 'k'])))
        pk = dict(p_reuse=0.7, p_bcast=0.05)
    elif draw(st.integers(0, 4)) == 0:
        # structured scenarios: every index has one structured (product / sum) type and no operand is dense, so that
        # (a) aliased operands share axes that occur only nested inside product/sum axes, (b) two operands select
        # different summands of a shared index (the product is zero) while another shared index still unifies
        scen = draw(st.sampled_from(['alias', 'disjoint-sum']))
        if scen == 'alias':
            T = draw(gp.types(max_numel=8, depth=2).filter(lambda t: t[0] != 'atom'))
        else:
            T = ['sum', [['atom', draw(st.integers(1, 3))] for _ in range(draw(st.integers(2, 3)))]]
        names = ['i', 'j', 'k']; tys = {n: T for n in names}
        sig = draw(st.sampled_from([[['i', 'j'], ['j', 'k']], [['i', 'j'], ['j', 'i']], [['i', 'j'], ['j', 'k'], ['k']],
                                    [['i', 'j'], ['j', 'k'], ['k', 'i']], [['i', 'j'], ['i', 'j']]]))
        used = list(dict.fromkeys(n for s_ in sig for n in s_))
        output = [n for n in used if draw(st.integers(0, 2)) == 0]
        pk = dict(p_dense=0.0, p_reuse=0.3, p_bcast=0.05)
        force_alias = scen == 'alias'
    else:
        nops = draw(st.sampled_from([0, 1, 2, 2, 2, 3, 3]))
        sig = [[draw(st.sampled_from(names)) for _ in range(draw(st.sampled_from([0, 1, 1, 2, 2, 2, 3])))] for _ in range(nops)]
        used = list(dict.fromkeys(n for s in sig for n in s))
        output = [n for n in used if draw(st.booleans())]
        output = list(draw(st.permutations(output))) if output else []
    ops = []
    zero = ZERO[kind]
    for s in sig:
        if dtype == 'bool':
            spec = draw(gp.tensor_specs([tys[n] for n in s], dtype='bool', **pk))
        else:
            defaults = (zero, zero, zero) + ((1.0, 7.0, 0.0) if kind == 'real' else (0.0, -2.0, 1.0))
            vals = VALUES[kind]
            if mode == 'viterbi-ptr':
                # the arg-max variant is about finite, attained maxima: +inf log-weights are not generated
                # (its (+inf)+(-inf) is NaN inside torch_semiring_einsum; the statement's 0*inf clause is about einsum)
                vals = tuple(v for v in vals if v != of.INF)
                defaults = tuple(v for v in defaults if v != of.INF)
            spec = draw(gp.tensor_specs([tys[n] for n in s], values=vals, defaults=defaults, dtype=dtype, **pk))
        ops.append({'indices': s, 'spec': spec})
    # aliasing: an operand may be the very same object as an earlier one (a rule that uses one factor twice) or a
    # dimension-reversed view of it (shares its PhysicalAxis objects in other roles)
    for j in range(1, len(ops)):
        tj = [tys[n] for n in ops[j]['indices']]
        for i in range(j):
            if 'alias' in ops[i]: continue
            ti = [tys[n] for n in ops[i]['indices']]
            if tj == ti and (draw(st.integers(0, 2)) == 0 or (force_alias and draw(st.booleans()))):
                ops[j] = {'indices': ops[j]['indices'], 'spec': ops[i]['spec'], 'alias': [i, 'same']}; break
            if len(tj) >= 2 and tj == ti[::-1] and (draw(st.integers(0, 2)) == 0 or force_alias):
                ops[j] = {'indices': ops[j]['indices'], 'spec': ops[i]['spec'], 'alias': [i, 'reversed']}; break
    rg = dtype != 'bool' and draw(st.integers(0, 3)) == 0
    return {'kind': kind, 'mode': mode, 'dtype': dtype, 'types': tys, 'operands': ops, 'output': output, 'requires_grad': rg}


def strategy(tier):
    return cases(tier)


def np_ops(kind):
    return {'real': of.RealOps, 'log': of.RealOps, 'viterbi': of.MaxPlusOps, 'bool': of.BoolOps}[kind]


def brute(kind, sizes, operands, dense, output):
    """Semiring einsum by full enumeration. sizes: {index: n}; operands: [[index...]]; dense: [ndarray] (log domain for
    log: converted here). Returns ndarray over output (log domain for log/viterbi)."""
    ops = np_ops(kind)
    order = list(sizes)
    shape = tuple(sizes[n] for n in order)
    acc = np.full(shape, ops.one, dtype=ops.dtype)
    if all(s > 0 for s in shape) and order:
        grids = np.indices(shape)
        for idxs, d in zip(operands, dense):
            d = np.asarray(d)
            if kind == 'log':
                with np.errstate(over='ignore'):
                    d = np.exp(d.astype(np.float64))
            elif kind != 'bool':
                d = d.astype(np.float64)
            val = d[tuple(grids[order.index(n)] for n in idxs)] if idxs else np.full(shape, d, dtype=ops.dtype)
            acc = ops.mul(acc, val)
    elif order:
        acc = np.full(shape, ops.zero, dtype=ops.dtype)
    else:
        for idxs, d in zip(operands, dense):
            d = np.asarray(d)
            if kind == 'log':
                d = np.exp(d.astype(np.float64))
            acc = ops.mul(acc, d.astype(ops.dtype))
    summed = tuple(i for i, n in enumerate(order) if n not in output)
    if any(shape[i] == 0 for i in summed):
        out = np.full(tuple(shape[i] for i in range(len(order)) if i not in summed), ops.zero, dtype=ops.dtype)
    else:
        out = ops.sum(acc, summed) if summed else acc
    rest = [n for n in order if n in output]
    perm = [rest.index(n) for n in output]
    out = np.transpose(out, perm) if len(perm) > 1 else out
    if kind == 'log':
        with np.errstate(divide='ignore'):
            out = np.log(out)
    return out, acc


def check(case, ctx):
    import torch
    from fggs import indices
    from .. import gen_fgg
    kind, mode, dtn = case['kind'], case['mode'], case['dtype']
    tys = case['types']
    sizes_all = {n: gp.numel(T) for n, T in tys.items()}
    operands = [o['indices'] for o in case['operands']]
    used = list(dict.fromkeys(n for s in operands for n in s))
    sizes = {n: sizes_all[n] for n in used}
    output = case['output']
    dense = [gp.dense_of(o['spec']) for o in case['operands']]
    for j, o in enumerate(case['operands']):
        if o.get('alias') and o['alias'][1] == 'reversed':
            dense[j] = np.transpose(dense[o['alias'][0]])
    for o, d in zip(case['operands'], dense):
        assert d.shape == tuple(sizes[n] for n in o['indices']), 'harness: generated operand has wrong shape'
    ref, full = brute(kind, sizes, operands, dense, output)
    dtype = gp.torch_dtype(dtn)
    sr = gen_fgg.make_semiring(kind, dtype if dtn != 'bool' else None) if kind != 'bool' else gen_fgg.make_semiring('bool', None)
    try:
        pts = []
        for o in case['operands']:
            if o.get('alias'):
                src = pts[o['alias'][0]]
                pts.append(src if o['alias'][1] == 'same' else src.permute(tuple(reversed(range(len(o['indices']))))))
                ctx.label('aliased-operands')
            else:
                pts.append(gp.build_pt(o['spec']))
    except Exception as e:
        ctx.violation('construct-failed', f'{type(e).__name__}: {e}'); return
    for pt, d in zip(pts, dense):
        # O2 self-consistency: the library's to_dense must agree with the independent interpreter
        a = pt.to_dense().numpy()
        if not (a.shape == d.shape and np.array_equal(a, d, equal_nan=True) if a.dtype != np.bool_ else np.array_equal(a, d)):
            ctx.violation('to_dense-differs', f'to_dense {a.tolist()} vs interpreter {d.tolist()}'); return
    if case['requires_grad']:
        for pt in pts: pt.physical.requires_grad_(True)
        ctx.label('requires-grad')
    summed = [n for n in used if n not in output]
    shared = any(sum(1 for s in operands if n in s) >= 2 for n in used)
    structured = any(gp.is_structured(o['spec']) for o in case['operands'])
    ctx.label('summed-out' if summed else None, 'shared-index' if shared else None, 'structured' if structured else None,
              'repeat-in-operand' if any(len(set(s)) < len(s) for s in operands) else None,
              'zero-size' if any(v == 0 for v in sizes.values()) else None,
              'bcast-view' if any(o['spec']['bcast'] for o in case['operands']) else None,
              'empty-operands' if not operands else None, 'nondefault-zero' if any(o['spec']['default'] != ZERO[kind] for o in case['operands']) else None,
              'kind:' + kind, 'mode:' + mode)
    with warnings.catch_warnings(record=True) as rec:
        warnings.simplefilter('always')
        with torch.no_grad():
            if mode == 'mv':
                out = ctx.call('mv', pts[0].mv, pts[1], sr)
            elif mode == 'mm':
                out = ctx.call('mm', pts[0].mm, pts[1], sr)
            elif mode == 'viterbi-ptr':
                out, ptr = ctx.call('log_viterbi_einsum_forward', indices.log_viterbi_einsum_forward, pts, operands, output, sr)
            else:
                out = ctx.call('einsum', indices.einsum, pts, operands, output, sr)
    if any('index type mismatch' in str(w.message) for w in rec):
        raise AssertionError('harness: generator produced ill-typed operands: ' + '; '.join(str(w.message) for w in rec)[:500])
    probs = gp.invariant_problems(out)
    ctx.require(not probs, 'invariant', '; '.join(probs))
    m = cmp.compare(out, ref, kind, dtn, what=f'[{kind}/{dtn}/{mode}] ')
    ctx.require(m is None, 'wrong-value', m or '', sr=kind, mode=mode)
    if mode == 'viterbi-ptr' and m is None:
        check_pointers(ctx, ptr, ref, full, used, output, sizes, dtn)
    ctx.nontrivial = bool(summed) and shared and structured and len(operands) >= 2


def check_pointers(ctx, ptr, ref, full, used, output, sizes, dtn):
    p = ptr.to_dense().numpy() if hasattr(ptr, 'to_dense') else np.asarray(ptr)
    summed = [n for n in used if n not in output]
    want = tuple(sizes[n] for n in output) + (len(summed),)
    if not ctx.require(tuple(p.shape) == want, 'pointer-shape', f'pointer tensor shape {tuple(p.shape)} != {want}'):
        return
    ref = np.asarray(ref)
    tol = cmp.rtol_for(dtn)
    for cell in itertools.product(*[range(sizes[n]) for n in output]):
        best = ref[cell] if cell else ref
        if not np.isfinite(best):
            continue
        vals = dict(zip(output, cell))
        pv = p[cell] if cell else p
        ok = True
        for n, x in zip(summed, pv.tolist()):
            if not (0 <= int(x) < sizes[n]):
                ctx.violation('pointer-out-of-range', f'cell {cell}: pointer {pv.tolist()} for summed-out {summed} sizes {[sizes[n] for n in summed]}')
                return
            vals[n] = int(x)
        got = full[tuple(vals[n] for n in used)] if used else full
        if not ctx.require(abs(float(got) - float(best)) <= tol * (1 + abs(float(best))), 'pointer-not-argmax',
                           f'cell {cell}: pointers {dict(zip(summed, pv.tolist()))} give {float(got)}, maximum is {float(best)}'):
            return


def route(case, v):
    return None


def selfcheck():
    gp.selfcheck()
    # brute force against numpy einsum on a plain real case
    a = np.arange(6.).reshape(2, 3); b = np.arange(12.).reshape(3, 4)
    r, _ = brute('real', {'i': 2, 'j': 3, 'k': 4}, [['i', 'j'], ['j', 'k']], [a, b], ['k', 'i'])
    assert np.allclose(r, np.einsum('ij,jk->ki', a, b))
    r, _ = brute('viterbi', {'i': 2, 'j': 3}, [['i', 'j'], ['j']], [a, np.array([0., -of.INF, 1.])], ['i'])
    assert np.allclose(r, [3., 6.])
