"""C09  Semiring linear solvers return the least solution of x = A x + b."""
from __future__ import annotations
import math, itertools
import numpy as np
from hypothesis import strategies as st
from .. import gen_pattern as gp, oracle_solve as osol

ID = 'C09'
RULE = ("three families x {Real,Log,Viterbi,Bool}: (i) dense Semiring.solve(a,b), n<=5, b with 1 or 2 dims; (ii) "
        "PatternedTensor.solve with a a typed pattern over (T,T) and b over (T,extra...), numel(T)<=8, b optionally built on some of a's PhysicalAxis objects; (iii) "
        "multi_solve/multi_mv with 1-4 block keys of shapes {(),(2,),(3,),(2,2)}, random present/absent blocks (incl. absent "
        "diagonal blocks), dense or patterned blocks, transpose flag; entries from regimes giving spectral radius <1, =1 "
        "(dyadic stochastic blocks), >1, infinite entries, Viterbi <=0 / =0 / >0 cycles; oracle = dense SCC/Perron-Frobenius "
        "least-solution solver (self-checked against Kleene iteration); arguments snapshot-compared. non-trivial = A's "
        "support has a cycle reaching a non-zero b entry; distinct by case hash")
ASSUMPTIONS = ["entries that are infinite because a block has spectral radius exactly 1 with non-0/1 entries may come out as inf or as a value >= 1e8 (exact singularity is not decidable with inexact intermediate arithmetic); 0/1 blocks must give inf exactly",
               "systems whose spectral radius cannot be classified exactly (non-dyadic, within 1e-6 of 1) are skipped and counted",
               "finite entries compared with |a-b| <= 1e-6*(1+|b|) (float64), infinities exactly",
               "blocks of a MultiTensor carry the semiring zero as default (as einsum results do)"]
ESSENTIAL_LABELS = ['mode:dense', 'mode:patterned', 'mode:multi_solve', 'mode:multi_mv', 'rho<1', 'divergent', 'absent-block', 'patterned-block', 'transpose', 'shared-axes']
KINDS = ['real', 'log', 'viterbi', 'bool']
INF = math.inf


def budget(tier):
    return {'examples': 1400 if tier == 'quick' else 30000, 'shrink_calls': 250}


# real-domain alphabets (log kinds take logs)
A_SUB = (0.0, 0.0, 0.0, 0.125, 0.25, 0.25, 0.0625)
A_SUPER = (0.0, 0.0, 0.5, 1.0, 2.0, 0.75)
A_MIXED = (0.0, 0.0, 0.25, 0.5, 1.0, 0.3, 1.5, INF)
B_VALS = (0.0, 0.0, 1.0, 0.5, 3.0, INF)
V_A = (-INF, -INF, -2.0, -0.5, 0.0, 0.0, 1.0, INF)
V_B = (-INF, -INF, 0.0, -1.0, 2.5)
STOCH_ROWS = {1: [[1.0]], 2: [[0.5, 0.5], [0.25, 0.75], [1.0, 0.0], [0.0, 1.0]],
              3: [[0.5, 0.25, 0.25], [0.0, 0.5, 0.5], [1.0, 0.0, 0.0], [0.25, 0.25, 0.5], [0.0, 0.0, 1.0]],
              4: [[0.25, 0.25, 0.25, 0.25], [0.5, 0.0, 0.5, 0.0], [0.0, 1.0, 0.0, 0.0], [0.0, 0.0, 0.5, 0.5]],
              5: [[0.5, 0.0, 0.0, 0.25, 0.25], [0.0, 0.0, 1.0, 0.0, 0.0], [0.25, 0.25, 0.25, 0.25, 0.0], [0.0, 0.5, 0.0, 0.0, 0.5]]}


def a_alphabet(draw, kind):
    if kind == 'viterbi': return V_A
    if kind == 'bool': return (False, False, True)
    return draw(st.sampled_from([A_SUB, A_SUB, A_SUPER, A_MIXED]))


def b_alphabet(kind):
    if kind == 'viterbi': return V_B
    if kind == 'bool': return (False, True)
    return B_VALS


def conv(kind, v):
    """real-domain alphabet value -> semiring domain"""
    if kind == 'log':
        return -INF if v == 0 else math.log(v)
    return v


@st.composite
def dense_cases(draw, kind):
    n = draw(st.integers(1, 5))
    regime = draw(st.sampled_from(['alpha', 'alpha', 'stochastic'])) if kind in ('real', 'log') else 'alpha'
    if regime == 'stochastic':
        rows = [list(draw(st.permutations(draw(st.sampled_from(STOCH_ROWS[n]))))) for _ in range(n)]
        if draw(st.booleans()):   # make it sub-stochastic in one row -> rho < 1 if irreducible
            i = draw(st.integers(0, n - 1)); rows[i] = [v / 2 for v in rows[i]]
        A = rows
    else:
        al = a_alphabet(draw, kind)
        A = [[draw(st.sampled_from(al)) for _ in range(n)] for _ in range(n)]
    m = draw(st.sampled_from([0, 0, 1, 2, 3]))    # 0: b is a vector
    bal = b_alphabet(kind)
    B = [[draw(st.sampled_from(bal)) for _ in range(max(1, m))] for _ in range(n)]
    A = [[conv(kind, v) for v in r] for r in A]; B = [[conv(kind, v) for v in r] for r in B]
    return {'mode': 'dense', 'kind': kind, 'A': A, 'B': B, 'bvec': m == 0}


def vals_for(kind, al):
    return tuple(conv(kind, v) for v in al)


@st.composite
def patterned_cases(draw, kind):
    corr = draw(st.integers(0, 3)) == 0
    if corr:
        # correlated-axes scenario: a product type of equal atoms, patterns that reuse axes inside and across dimensions
        # (K3*K2, K2*K1 against K3*K3), b built on a's PhysicalAxis objects
        m = draw(st.sampled_from([2, 2, 3]))
        T = ['prod', [['atom', m]] * draw(st.sampled_from([2, 2, 3] if m == 2 else [2]))]
    else:
        T = draw(gp.types(max_numel=8, depth=2))
    pk = dict(p_reuse=0.5, p_dense=0.0, p_bcast=0.05) if corr else {}
    extra = [draw(gp.types(max_numel=3, depth=1)) for _ in range(draw(st.sampled_from([0, 0, 1, 1, 2])))]
    zero = {'real': 0.0, 'log': -INF, 'viterbi': -INF, 'bool': False}[kind]
    if kind == 'bool':
        a = draw(gp.tensor_specs([T, T], dtype='bool', **pk))
        b = draw(gp.tensor_specs([T] + extra, dtype='bool', **pk))
    else:
        al = a_alphabet(draw, kind)
        dfl = (zero, zero, zero, zero, conv(kind, 0.25) if kind != 'viterbi' else -1.0)
        a = draw(gp.tensor_specs([T, T], values=vals_for(kind, al) if kind != 'viterbi' else V_A, defaults=dfl, **pk))
        b = draw(gp.tensor_specs([T] + extra, values=vals_for(kind, b_alphabet(kind)) if kind != 'viterbi' else V_B, defaults=dfl, **pk))
    # b may be built on some of a's PhysicalAxis objects (solve renames b apart when the operands are not disjoint)
    share = []
    if corr or draw(st.integers(0, 2)) == 0:
        used = set()
        for j, nj in enumerate(b['paxes']):
            cands = [i for i, ni in enumerate(a['paxes']) if ni == nj and i not in used]
            if cands and draw(st.integers(0, 3)) > 0:
                i = draw(st.sampled_from(cands)); used.add(i); share.append([i, j])
    return {'mode': 'patterned', 'kind': kind, 'a': a, 'b': b, 'share': share}


SHAPES = [[], [2], [3], [2, 2]]


@st.composite
def multi_cases(draw, kind):
    nk = draw(st.integers(1, 4))
    keys = [f'K{i}' for i in range(nk)]
    shapes = {}
    total = 0
    for k in keys:
        s = draw(st.sampled_from(SHAPES))
        sz = int(np.prod(s)) if s else 1
        if total + sz > 12: s = []; sz = 1
        shapes[k] = s; total += sz
    zero = {'real': 0.0, 'log': -INF, 'viterbi': -INF, 'bool': False}[kind]
    al = a_alphabet(draw, kind) if kind in ('real', 'log') else None
    def block(shape):
        tys = [['atom', n] for n in shape]
        pat = draw(st.integers(0, 2)) == 0
        if kind == 'bool':
            return draw(gp.tensor_specs(tys, dtype='bool', defaults=None) if False else gp.tensor_specs(tys, dtype='bool', force_dense=not pat))
        vals = V_A if kind == 'viterbi' else vals_for(kind, al)
        return draw(gp.tensor_specs(tys, values=vals, defaults=(zero,), force_dense=not pat))
    def bblock(shape):
        tys = [['atom', n] for n in shape]
        if kind == 'bool':
            return draw(gp.tensor_specs(tys, dtype='bool', force_dense=True))
        vals = V_B if kind == 'viterbi' else vals_for(kind, b_alphabet(kind))
        return draw(gp.tensor_specs(tys, values=vals, defaults=(zero,), force_dense=draw(st.booleans())))
    a = {}
    # a third of the systems have few diagonal blocks but many off-diagonal ones: cycles through blocks without a
    # self-loop, where elimination creates fill-in on the diagonal
    sparse_diag = nk >= 2 and draw(st.integers(0, 2)) == 0
    for x in keys:
        for y in keys:
            if draw(st.integers(0, 9)) < ((2 if x == y else 8) if sparse_diag else 5):
                spec = block(shapes[x] + shapes[y])
                if kind == 'bool': spec['default'] = False
                a[f'{x},{y}'] = spec
    b = {}
    for x in keys:
        if draw(st.integers(0, 9)) < 7:
            spec = bblock(shapes[x])
            if kind == 'bool': spec['default'] = False
            b[x] = spec
    op = draw(st.sampled_from(['solve', 'solve', 'mv']))
    return {'mode': 'multi', 'kind': kind, 'keys': keys, 'shapes': shapes, 'a': a, 'b': b, 'transpose': draw(st.booleans()), 'op': op}


@st.composite
def cases(draw, tier):
    kind = draw(st.sampled_from(KINDS))
    mode = draw(st.sampled_from(['dense', 'patterned', 'multi', 'multi']))
    if mode == 'dense': return draw(dense_cases(kind))
    if mode == 'patterned': return draw(patterned_cases(kind))
    return draw(multi_cases(kind))


def strategy(tier):
    return cases(tier)


# ---- enumerated sub-space: every pattern of present/absent blocks of a 3x3 block system (fill-in on the diagonal, pivots
# without a self-loop, rows depending on them) with fixed contraction weights, both transpose flags

_ENUM_KEYS = ['K0', 'K1', 'K2']
_ENUM_SHAPES = {'K0': [], 'K1': [2], 'K2': []}


def _dense_spec(shape, value, dtype):
    n = int(np.prod(shape)) if shape else 1
    if dtype == 'bool':
        return {'paxes': list(shape), 'vaxes': [{'p': i} for i in range(len(shape))], 'phys': [True] * n, 'bcast': [], 'default': False, 'dtype': 'bool'}
    # distinct entries so that a transposed or misplaced block changes the answer
    return {'paxes': list(shape), 'vaxes': [{'p': i} for i in range(len(shape))], 'phys': [value * (1 + 0.25 * i) for i in range(n)],
            'bcast': [], 'default': 0.0, 'dtype': 'float64'}


def enum_case(kind, mask, transpose):
    a = {}
    i = 0
    for x in _ENUM_KEYS:
        for y in _ENUM_KEYS:
            if mask >> i & 1:
                a[f'{x},{y}'] = _dense_spec(_ENUM_SHAPES[x] + _ENUM_SHAPES[y], 0.125 + 0.01 * i, 'bool' if kind == 'bool' else 'float64')
            i += 1
    b = {x: _dense_spec(_ENUM_SHAPES[x], 1.0 + j, 'bool' if kind == 'bool' else 'float64') for j, x in enumerate(_ENUM_KEYS)}
    return {'mode': 'multi', 'kind': kind, 'keys': list(_ENUM_KEYS), 'shapes': dict(_ENUM_SHAPES), 'a': a, 'b': b,
            'transpose': transpose, 'op': 'solve'}


# regression inputs of repaired defects (run in every tier, shard 0)
REGRESSIONS = [
    # D28: the solution's pattern must be widened until it is stable (a diagonal of the running pattern has to be split twice)
    {'mode': 'patterned', 'kind': 'real',
     'a': {'paxes': [2, 2, 2, 2], 'vaxes': [{'prod': [{'p': 0}, {'p': 1}, {'p': 2}]}, {'prod': [{'p': 0}, {'p': 3}, {'p': 1}]}],
           'phys': [0.125], 'bcast': [0, 1, 2, 3], 'default': 0.0, 'dtype': 'float64'},
     'b': {'paxes': [2], 'vaxes': [{'prod': [{'p': 0}, {'p': 0}, {'p': 0}]}], 'phys': [1.0], 'bcast': [0], 'default': 0.0, 'dtype': 'float64'},
     'share': []},
]


def enumerate_cases(tier, shard, nshards):
    if shard == 0:
        for c in REGRESSIONS: yield c
    i = 0
    for kind in ('real', 'bool'):
        for mask in range(512):
            for transpose in (False, True):
                if i % nshards == shard:
                    yield enum_case(kind, mask, transpose)
                i += 1


def exhaustive_note(tier):
    return ("multi_solve on all 2^9 present/absent patterns of a 3x3 block system (block shapes (),(2,),()), fixed contraction "
            "weights (Real) / all-true blocks (Bool), both transpose flags: 2048 cases, completed")


# ------------------------------------------------------------------ comparison

def compare(ctx, kind, got, ref, what, crit=None):
    """crit: boolean mask of entries whose reference value is infinite because of a block with spectral radius
    exactly 1 (and inexact intermediate arithmetic): there 'inf or >= 1e8' is accepted (the limit as rho -> 1-)."""
    import torch
    a = got.detach().numpy() if isinstance(got, torch.Tensor) else np.asarray(got)
    b = np.asarray(ref)
    if not ctx.require(tuple(a.shape) == tuple(b.shape), 'wrong-shape', f'{what}: {a.shape} vs {b.shape}'):
        return False
    if kind == 'bool':
        return ctx.require(np.array_equal(a.astype(bool), b.astype(bool)), 'wrong-solution', f'{what}: got {a.tolist()} expected {b.tolist()}', sr=kind)
    a = a.astype(np.float64); b = b.astype(np.float64)
    if np.isnan(a).any():
        return ctx.require(False, 'nan', f'{what}: {a.tolist()}', sr=kind)
    if crit is not None and crit.any() and kind in ('real', 'log'):
        crit = np.asarray(crit).reshape(b.shape)
        huge = 1e8 if kind == 'real' else math.log(1e8)
        if not np.all(a[crit] >= huge):
            return ctx.require(False, 'wrong-solution', f'{what}: critical entries must be inf or huge: got {a.tolist()} expected {b.tolist()}', sr=kind)
        ctx.label('critical-accepted' if np.isfinite(a[crit]).any() else 'critical-inf')
        a = np.where(crit, b, a)
    ok = np.array_equal(np.isinf(a), np.isinf(b)) and np.array_equal(np.sign(a[np.isinf(a)]), np.sign(b[np.isinf(b)]))
    if ok:
        fin = ~np.isinf(b)
        ok = bool(np.all(np.abs(a[fin] - b[fin]) <= 1e-6 * (1 + np.abs(b[fin]))))
    return ctx.require(ok, 'wrong-solution', f'{what}: got {a.tolist()} expected {b.tolist()}', sr=kind)


def snapshot(t):
    """bit-level snapshot of a Tensor / PatternedTensor argument"""
    import torch
    if isinstance(t, torch.Tensor):
        return ('T', tuple(t.shape), t.stride(), t.clone().numpy().tobytes())
    return ('P', tuple(t.physical.shape), t.physical.stride(), t.physical.clone().numpy().tobytes(),
            tuple(id(k) for k in t.paxes), repr(t.vaxes), repr(t.default))


def support_cycle_reaches_b(A_support, b_nonzero):
    n = len(A_support)
    reach = [[bool(A_support[i][j]) for j in range(n)] for i in range(n)]
    for k in range(n):
        for i in range(n):
            if reach[i][k]:
                for j in range(n):
                    if reach[k][j]: reach[i][j] = True
    for i in range(n):
        if reach[i][i] and (b_nonzero[i] or any(reach[i][j] and b_nonzero[j] for j in range(n))):
            return True
    return False


def zero_of(kind):
    return {'real': 0.0, 'log': -INF, 'viterbi': -INF, 'bool': False}[kind]


def classify(ctx, kind, A, B, ref):
    z = zero_of(kind)
    A = np.asarray(A); B = np.asarray(B)
    sup = (A != z)
    bn = (B != z).any(axis=1) if B.ndim == 2 else (B != z)
    nt = support_cycle_reaches_b(sup.tolist(), bn.tolist())
    if kind != 'bool' and ref is not None:
        if np.isinf(np.asarray(ref, dtype=float)).any() and (np.asarray(ref, dtype=float) == INF).any(): ctx.label('divergent')
        elif nt: ctx.label('rho<1')
    return nt


def check(case, ctx):
    import torch, fggs
    from .. import gen_fgg
    kind = case['kind']
    dtype = torch.float64
    sr = gen_fgg.make_semiring(kind, dtype if kind != 'bool' else None)
    ctx.label('mode:' + (case['mode'] if case['mode'] != 'multi' else 'multi_' + case['op']), 'kind:' + kind)
    tdt = torch.bool if kind == 'bool' else dtype
    if case['mode'] == 'dense':
        A = np.array(case['A'], dtype=bool if kind == 'bool' else float); B = np.array(case['B'], dtype=bool if kind == 'bool' else float)
        ref, st_ = osol.SOLVERS[kind](A, B)
        if ref is None: ctx.skip('spectral radius undecidable in floating point'); return
        a = torch.tensor(A, dtype=tdt); b = torch.tensor(B, dtype=tdt)
        crit = osol.LAST['crit'] if kind in ('real', 'log') else None
        if case['bvec']:
            b = b[:, 0].clone(); ref = ref[:, 0]
            crit = crit[:, 0] if crit is not None else None
        sa, sb = snapshot(a), snapshot(b)
        x = ctx.call('Semiring.solve', sr.solve, a, b)
        compare(ctx, kind, x, ref, f'{kind} solve', crit)
        ctx.require(snapshot(a) == sa and snapshot(b) == sb, 'argument-modified', 'Semiring.solve changed its arguments')
        ctx.nontrivial = classify(ctx, kind, A, B, ref)
        return
    if case['mode'] == 'patterned':
        da, db = gp.dense_of(case['a']), gp.dense_of(case['b'])
        n = da.shape[0]
        B = db.reshape(n, -1)
        ref, st_ = osol.SOLVERS[kind](da, B)
        if ref is None: ctx.skip('spectral radius undecidable in floating point'); return
        crit = osol.LAST['crit'].reshape(db.shape) if kind in ('real', 'log') else None
        try:
            apax = []
            a = gp.build_pt(case['a'], out_paxes=apax)
            b = gp.build_pt(case['b'], reuse={j: apax[i] for i, j in case.get('share', [])})
            if case.get('share'): ctx.label('shared-axes')
        except Exception as e:
            ctx.violation('construct-failed', f'{type(e).__name__}: {e}'); return
        sa, sb = snapshot(a), snapshot(b)
        x = ctx.call('PatternedTensor.solve', a.solve, b, sr)
        p = gp.invariant_problems(x)
        ctx.require(not p, 'invariant', '; '.join(p))
        xd = ctx.call('to_dense', x.to_dense)
        compare(ctx, kind, xd, ref.reshape(db.shape), f'{kind} PatternedTensor.solve', crit)
        ctx.require(snapshot(a) == sa and snapshot(b) == sb, 'argument-modified', 'PatternedTensor.solve changed its arguments')
        if gp.is_structured(case['a']) or gp.is_structured(case['b']): ctx.label('patterned-block')
        if case['a']['default'] != zero_of(kind) or case['b']['default'] != zero_of(kind): ctx.label('foreign-default')
        ctx.nontrivial = classify(ctx, kind, da, B, ref) and (gp.is_structured(case['a']) or gp.is_structured(case['b']))
        return
    # multi
    from fggs.multi import MultiTensor, multi_solve, multi_mv
    keys, shapes = case['keys'], {k: tuple(v) for k, v in case['shapes'].items()}
    sizes = {k: int(np.prod(shapes[k])) if shapes[k] else 1 for k in keys}
    off = {}; o = 0
    for k in keys: off[k] = o; o += sizes[k]
    N = o
    z = zero_of(kind)
    A = np.full((N, N), z, dtype=bool if kind == 'bool' else float)
    B = np.full((N, 1), z, dtype=bool if kind == 'bool' else float)
    tshapes = {k: torch.Size(shapes[k]) for k in keys}
    am = MultiTensor((tshapes, tshapes), sr); bm = MultiTensor(tshapes, sr)
    try:
        for xy, spec in case['a'].items():
            x, y = xy.split(',')
            d = gp.dense_of(spec).reshape(sizes[x], sizes[y])
            A[off[x]:off[x] + sizes[x], off[y]:off[y] + sizes[y]] = d
            am[x, y] = gp.build_pt(spec)
        for x, spec in case['b'].items():
            B[off[x]:off[x] + sizes[x], 0] = gp.dense_of(spec).reshape(-1)
            bm[x] = gp.build_pt(spec)
    except Exception as e:
        ctx.violation('construct-failed', f'{type(e).__name__}: {e}'); return
    absent = len(case['a']) < len(keys) ** 2
    ctx.label('absent-block' if absent else None, 'absent-diagonal' if any(f'{k},{k}' not in case['a'] for k in keys) else None,
              'patterned-block' if any(gp.is_structured(s) for s in list(case['a'].values()) + list(case['b'].values())) else None,
              'transpose' if case['transpose'] else None, f'keys={len(keys)}')
    Aeff = A.T if case['transpose'] else A
    snaps = {k: snapshot(v) for k, v in am.items()}, {k: snapshot(v) for k, v in bm.items()}
    crit = None
    if case['op'] == 'mv':
        ref = osol.mv(kind, Aeff, B)
        out = ctx.call('multi_mv', multi_mv, am, bm, case['transpose'])
    else:
        ref, st_ = osol.SOLVERS[kind](Aeff, B)
        if ref is None: ctx.skip('spectral radius undecidable in floating point'); return
        crit = osol.LAST['crit'] if kind in ('real', 'log') else None
        out = ctx.call('multi_solve', multi_solve, am, bm, case['transpose'])
    for k in keys:
        want = ref[off[k]:off[k] + sizes[k], 0].reshape(shapes[k])
        got = ctx.call('getitem', lambda: out[k])
        gd = ctx.call('to_dense', got.to_dense)
        compare(ctx, kind, gd, want, f'{kind} multi_{case["op"]}[{k}] transpose={case["transpose"]}',
                None if crit is None else crit[off[k]:off[k] + sizes[k], 0].reshape(shapes[k]))
    ctx.require(({k: snapshot(v) for k, v in am.items()}, {k: snapshot(v) for k, v in bm.items()}) == snaps and
                set(am.keys()) == {tuple(xy.split(',')) for xy in case['a']} and set(bm.keys()) == set(case['b']),
                'argument-modified', f'multi_{case["op"]} changed its arguments')
    nt = classify(ctx, kind, Aeff, B, ref)
    ctx.nontrivial = (nt or case['op'] == 'mv' and bool(case['a']) and bool(case['b'])) and (absent or any(gp.is_structured(s) for s in case['a'].values()))


def route(case, v):
    return None


def selfcheck():
    osol.selfcheck()
    gp.selfcheck()
