"""C14  JSON serialisation round-trips grammars and weights."""
from __future__ import annotations
import copy, itertools, json, math
import numpy as np
from hypothesis import strategies as st
from .. import gen_fgg, gen_pattern as gp, oracle_fgg as of, iso, cmp

ID = 'C14'
RULE = ("(A) G1 specs (implicit, explicit and mixed node/edge ids, FiniteDomain with string or int values and RangeDomain, dense and typed "
        "patterned weights, inf entries, start arity 0-2, labels used by no rule) serialised with fgg_to_json -> json.dumps -> json.loads -> "
        "json_to_fgg and compared: start, labels/types/terminality, per-lhs rule count and order, each rule isomorphic (own brute-force "
        "isomorphism, externals in order, explicit ids preserved and still explicit), domains, dense factor weights, sum_product; all-explicit ids: "
        "second round trip reproduces the JSON verbatim. (B) patterned weight specifications {physical, expand, vaxes, default} from G2 types: "
        "json_to_weights(spec).to_dense() = independent interpreter. (C) valid grammar JSON with one attachment/external number replaced by an "
        "out-of-range value (negative or >= number of nodes): ValueError required. non-trivial = a rule with >= 2 nodes of one label and an "
        "external that is not node 0, or a patterned weight; distinct by case hash")
ASSUMPTIONS = ["weight specs always carry 'vaxes' (the statement speaks of patterned specifications); ConstantFactor is not generated",
               "default dtype float64 while the check runs (as bin/sum_product.py -d); non-integer attachment numbers are out of scope"]
ESSENTIAL_LABELS = ['mode:roundtrip', 'mode:weights', 'mode:malformed', 'ids:mixed', 'ids:all', 'unused-label', 'patterned-weight', 'inf-weight', 'negative-number']


def budget(tier):
    return {'examples': 1000 if tier == 'quick' else 20000, 'shrink_calls': 250}


@st.composite
def cases(draw, tier):
    mode = draw(st.sampled_from(['roundtrip', 'roundtrip', 'weights', 'malformed']))
    if mode == 'weights':
        nd = draw(st.integers(0, 3))
        tys = [draw(gp.types(max_numel=8, depth=2)) for _ in range(nd)]
        # integral values only in half of the specs: written as JSON integers (1, not 1.0) they must still denote a float tensor
        vals = (0.0, 1.0, 2.5, -1.0, math.inf) if draw(st.booleans()) else (0.0, 1.0, 1.0, 2.0, -1.0)
        spec = draw(gp.tensor_specs(tys, values=vals, defaults=(0.0, 0.0, 1.0, 0.5, -math.inf), p_bcast=0.0))
        expand = draw(st.booleans()) and len(spec['paxes']) >= 1
        return {'mode': 'weights', 'spec': spec, 'expand_first': bool(expand), 'with_default': draw(st.booleans()),
                'int_literals': draw(st.booleans())}
    base = gen_fgg.specs(recursive=draw(st.booleans()), weights=(0.0, 0.25, 0.5, 1.0, 2.0, math.inf), max_nts=3, max_dom=3, max_edges=3, max_nodes=5)
    # patterned factor weights, also with a default that is not zero (0.5, 2, inf): the writer has to materialise it
    spec = draw(gen_fgg.patterned(base, weights=(0.0, 0.5, 1.0, 2.0), defaults=(0.0, 0.5, 2.0, math.inf), p_term=0.7, p_label=0.6) if draw(st.booleans()) else base)
    ids = draw(st.sampled_from(['none', 'all', 'mixed']))
    doms = draw(st.sampled_from(['finite', 'range', 'mixed', 'int-values']))
    if mode == 'roundtrip':
        return {'mode': 'roundtrip', 'spec': spec, 'ids': ids, 'doms': doms}
    # malformed: which number to corrupt
    return {'mode': 'malformed', 'spec': spec, 'ids': ids, 'doms': doms, 'pick': draw(st.integers(0, 10 ** 6)),
            'where': draw(st.sampled_from(['attachments', 'externals'])),
            'how': draw(st.sampled_from(['neg1', 'neglen', 'neglen1', 'len', 'len1', 'big']))}


def strategy(tier):
    return cases(tier)


def build(case):
    import torch
    ids = {'none': False, 'all': True, 'mixed': 'mixed'}[case['ids']]
    doms = {'finite': False, 'range': True, 'mixed': 'mixed', 'int-values': 'int-values'}[case['doms']]
    return gen_fgg.build(case['spec'], 'real', torch.float64, explicit_ids=ids, range_domains=doms, empty_id=empty_id_case(case))


def empty_id_case(case):
    """every other case with explicit ids names the first node of each rule '' (pure function of the case)"""
    return case['ids'] != 'none' and len(case['spec']['rules']) % 2 == 0


def label_table(h):
    return sorted((el.name, tuple(nl.name for nl in el.type), el.is_terminal) for el in h.edge_labels())


def check(case, ctx):
    import torch
    old = torch.get_default_dtype()
    torch.set_default_dtype(torch.float64)
    try:
        ctx.label('mode:' + case['mode'])
        if case['mode'] == 'weights': return check_weights(case, ctx)
        if case['mode'] == 'malformed': return check_malformed(case, ctx)
        return check_roundtrip(case, ctx)
    finally:
        torch.set_default_dtype(old)


def check_roundtrip(case, ctx):
    import torch, fggs
    spec = case['spec']
    feats = gen_fgg.spec_features(spec)
    ctx.label(*[f for f in feats if f in ('patterned-weight', 'inf-weight', 'start-arity>0', 'recursive', 'ruleless-nt')], 'ids:' + case['ids'], 'doms:' + case['doms'])
    try:
        g, info = build(case)
    except Exception as e:
        ctx.violation('build-failed', f'{type(e).__name__}: {e}'); return
    # ids given explicitly are the object's ids and are marked persistent -- whatever their value (seeded change C14-10: '' is falsy)
    if case['ids'] != 'none':
        exp_all = case['ids'] == 'all'
        for ri, rr in enumerate(info['rules']):
            for j, v in enumerate(rr['nodes']):
                if exp_all or (ri + j) % 2 == 0:
                    want = '' if (empty_id_case(case) and j == 0) else f'v{ri}_{j}'
                    if not ctx.require(v.persist_id and v.id == want, 'explicit-id-not-kept', f'Node(id={want!r}) has id {v.id!r}, persist_id={v.persist_id}'): return
                    if want == '': ctx.label('empty-node-id')
            for k, e in enumerate(rr['edges']):
                if exp_all or (ri + k + 1) % 2 == 0:
                    if not ctx.require(e.persist_id and e.id == f'e{ri}_{k}', 'explicit-id-not-kept', f'Edge(id=e{ri}_{k}) has id {e.id!r}, persist_id={e.persist_id}'): return
    used = {e['label'] for r in spec['rules'] for e in r['edges']} | {r['lhs'] for r in spec['rules']} | {spec['start']}
    unused = [n for n in list(spec['terminals']) + list(spec['nonterminals']) if n not in used]
    if unused: ctx.label('unused-label')
    j1 = ctx.call('fgg_to_json', fggs.fgg_to_json, g)
    try:
        text = json.dumps(j1)
    except Exception as e:
        ctx.violation('json.dumps-rejects', f'{type(e).__name__}: {e}'); return
    g2 = ctx.call('json_to_fgg', fggs.json_to_fgg, json.loads(text))
    ok = ctx.require(g2.start == g.start, 'start-differs', f'{g2.start} vs {g.start}')
    ok &= ctx.require(label_table(g2) == label_table(g), 'labels-differ', f'{label_table(g2)} vs {label_table(g)}')
    ok &= ctx.require(sorted(nl.name for nl in g2.node_labels()) == sorted(nl.name for nl in g.node_labels()), 'node-labels-differ', '')
    if not ok: return
    for lhs in g.nonterminals():
        r1, r2 = g.rules(lhs), g2.rules(g2.get_edge_label(lhs.name))
        if not ctx.require(len(r1) == len(r2), 'rule-count', f'{lhs.name}: {len(r1)} vs {len(r2)}'): return
        for k, (a, b) in enumerate(zip(r1, r2)):
            res = iso.isomorphic(iso.describe(a.rhs), iso.describe(b.rhs))
            if res is None: ctx.skip('isomorphism search limit'); continue
            if not ctx.require(res, 'rule-not-isomorphic', f'{lhs.name} rule {k}: {iso.describe(a.rhs)} vs {iso.describe(b.rhs)}'): return
            ids_a = sorted((v.id, v.label.name) for v in a.rhs.nodes() if v.persist_id)
            ids_b = sorted((v.id, v.label.name) for v in b.rhs.nodes() if v.persist_id)
            ctx.require(ids_a == ids_b, 'explicit-node-ids-lost', f'{lhs.name} rule {k}: {ids_a} vs {ids_b}')
            eids_a = sorted((e.id, e.label.name, tuple(v.id if v.persist_id else None for v in e.nodes)) for e in a.rhs.edges() if e.persist_id)
            eids_b = sorted((e.id, e.label.name, tuple(v.id if v.persist_id else None for v in e.nodes)) for e in b.rhs.edges() if e.persist_id)
            ctx.require(eids_a == eids_b, 'explicit-edge-ids-lost', f'{lhs.name} rule {k}: {eids_a} vs {eids_b}')
            ctx.require(sum(1 for v in a.rhs.nodes() if not v.persist_id) == sum(1 for v in b.rhs.nodes() if not v.persist_id) and
                        sum(1 for e in a.rhs.edges() if not e.persist_id) == sum(1 for e in b.rhs.edges() if not e.persist_id), 'implicit-became-explicit', '')
    ctx.require(set(g2.domains) == set(g.domains) and all(g2.domains[n] == g.domains[n] for n in g.domains), 'domains-differ',
                f'{ {n: d.to_json() for n, d in g2.domains.items()} } vs { {n: d.to_json() for n, d in g.domains.items()} }')
    if ctx.require(set(g2.factors) == set(g.factors), 'factors-differ', f'{sorted(g2.factors)} vs {sorted(g.factors)}'):
        for n in g.factors:
            a = cmp.to_numpy(g.factors[n].weights); b = cmp.to_numpy(g2.factors[n].weights)
            ctx.require(a.shape == b.shape and np.array_equal(a, b), 'weights-differ', f'{n}: {b.tolist()} vs {a.tolist()}')
            ctx.require(tuple(d.size() for d in g2.factors[n].domains) == tuple(d.size() for d in g.factors[n].domains), 'factor-domains-differ', n)
    # same sum-product (non-recursive: exact evaluation; recursive: both through the same solver)
    if not gen_fgg.is_recursive(spec):
        z1 = ctx.call('sum_product', fggs.sum_product, g, semiring=fggs.RealSemiring(dtype=torch.float64))
        z2 = ctx.call('sum_product', fggs.sum_product, g2, semiring=fggs.RealSemiring(dtype=torch.float64))
        ref = of.NumEval(spec, of.RealOps).nonrecursive()[spec['start']]
        m = cmp.compare(z2, ref, 'real', 'float64', what='round-tripped grammar vs reference: ')
        ctx.require(m is None, 'sum-product-differs', m or '')
        m = cmp.compare(z1, ref, 'real', 'float64', what='original grammar vs reference: ')
        ctx.require(m is None, 'sum-product-differs', m or '')
    # second round trip
    j2 = ctx.call('fgg_to_json', fggs.fgg_to_json, g2)
    if case['ids'] == 'all':
        ctx.require(j2 == j1 and json.dumps(j2, sort_keys=True) == json.dumps(j1, sort_keys=True), 'not-verbatim',
                    f'second serialisation differs: {json.dumps(j2, sort_keys=True)[:600]} vs {json.dumps(j1, sort_keys=True)[:600]}')
    else:
        g3 = ctx.call('json_to_fgg', fggs.json_to_fgg, json.loads(json.dumps(j2)))
        ctx.require(label_table(g3) == label_table(g), 'labels-differ', 'after second round trip')
    # hrg_to_json / json_to_hrg on the same object
    h2 = ctx.call('json_to_hrg', fggs.json_to_hrg, json.loads(json.dumps(ctx.call('hrg_to_json', fggs.hrg_to_json, g))))
    ctx.require(label_table(h2) == label_table(g) and h2.start == g.start and len(h2.all_rules()) == len(g.all_rules()), 'hrg-roundtrip-differs', '')
    nt = 'patterned-weight' in feats
    for r in spec['rules']:
        if r['ext'] and r['ext'][0] != 0 and len(set(r['nodes'])) < len(r['nodes']): nt = True
    ctx.nontrivial = nt


def to_json_axis(P):
    if 'p' in P: return P['p']
    if 'prod' in P: return [to_json_axis(x) for x in P['prod']]
    return {'before': P['sum'][0], 'term': to_json_axis(P['sum'][1]), 'after': P['sum'][2]}


def check_weights(case, ctx):
    import torch, fggs
    spec = copy.deepcopy(case['spec'])
    sizes = spec['paxes']
    ph = np.array(spec['phys'], dtype=float).reshape(sizes) if sizes else np.array(spec['phys'][0], dtype=float)
    j = {'vaxes': [to_json_axis(P) for P in spec['vaxes']]}
    if case['expand_first']:
        # the first physical axis is a broadcast axis: "expand": [n], physical given without it
        ph = np.broadcast_to(ph[0:1], ph.shape).copy() if ph.shape[0] > 0 else ph
        spec['phys'] = ph.reshape(-1).tolist()
        j['physical'] = ph[0].tolist(); j['expand'] = [sizes[0]]
        ctx.label('expand')
    else:
        j['physical'] = ph.tolist()
    if case['with_default'] or spec['default'] != 0.0:
        j['default'] = spec['default']
    else:
        spec['default'] = 0.0
    want = gp.dense_of(spec)
    def ints(x):
        if isinstance(x, list): return [ints(y) for y in x]
        return int(x) if isinstance(x, float) and math.isfinite(x) and x == int(x) else x
    if case.get('int_literals'):
        j['physical'] = ints(j['physical'])
        if 'default' in j: j['default'] = ints(j['default'])
        if all(isinstance(y, int) for y in (np.array(j['physical'], dtype=object).reshape(-1).tolist() if isinstance(j['physical'], list) else [j['physical']])):
            ctx.label('all-integer-literals')
    try:
        text = json.dumps(j)
    except Exception as e:
        raise AssertionError(f'harness: weight spec not serialisable: {e}')
    w = ctx.call('json_to_weights', fggs.json_to_weights, json.loads(text))
    d = ctx.call('to_dense', w.to_dense).numpy()
    ctx.require(d.shape == want.shape and np.array_equal(d, want), 'json_to_weights-wrong', f'spec {text[:500]}: got {d.tolist()} expected {want.tolist()}')
    p = gp.invariant_problems(w)
    ctx.require(not p, 'invariant', '; '.join(p))
    # dense form too
    w2 = ctx.call('json_to_weights', fggs.json_to_weights, json.loads(json.dumps(ints(want.tolist()) if case.get('int_literals') else want.tolist())))
    ctx.require(np.array_equal(ctx.call('to_dense', w2.to_dense).numpy(), want), 'json_to_weights-wrong', 'dense nested list')
    ctx.label('structured' if gp.is_structured(spec) else 'dense-pattern')
    ctx.nontrivial = gp.is_structured(spec)


def check_malformed(case, ctx):
    import fggs
    try:
        g, info = build(case)
    except Exception as e:
        ctx.violation('build-failed', f'{type(e).__name__}: {e}'); return
    j = json.loads(json.dumps(fggs.fgg_to_json(g)))
    sites = []
    for ri, r in enumerate(j['grammar']['rules']):
        n = len(r['rhs']['nodes'])
        if case['where'] == 'attachments':
            for ei, e in enumerate(r['rhs']['edges']):
                for k in range(len(e['attachments'])): sites.append((ri, ei, k, n))
        else:
            for k in range(len(r['rhs']['externals'])): sites.append((ri, None, k, n))
    if not sites:
        ctx.skip('no number to corrupt'); return
    ri, ei, k, n = sites[case['pick'] % len(sites)]
    bad = {'neg1': -1, 'neglen': -n, 'neglen1': -n - 1, 'len': n, 'len1': n + 1, 'big': 10 ** 6}[case['how']]
    if ei is None: j['grammar']['rules'][ri]['rhs']['externals'][k] = bad
    else: j['grammar']['rules'][ri]['rhs']['edges'][ei]['attachments'][k] = bad
    ctx.label('negative-number' if bad < 0 else 'too-large-number', 'site:' + case['where'])
    ctx.expect_raises(f'json_to_fgg[{case["where"]}={case["how"]}]', ValueError, fggs.json_to_fgg, j)
    ctx.expect_raises(f'json_to_hrg[{case["where"]}={case["how"]}]', ValueError, fggs.json_to_hrg, j['grammar'])
    ctx.nontrivial = True


def route(case, v):
    return None


def selfcheck():
    gp.selfcheck(); of.selfcheck()
