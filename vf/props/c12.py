"""C12  Results do not depend on how the grammar is written down."""
from __future__ import annotations
import itertools, math, warnings
import numpy as np
from hypothesis import strategies as st
from .. import gen_fgg, oracle_fgg as of, admit, cmp
from . import c04

ID = 'C12'
RULE = ("G1 specs (recursive specs rescaled to a finite least fixed point) + a random presentation transform: permutation of the "
        "rule list, of node and edge insertion order in every rule, top-down vs bottom-up construction (start symbol assigned after the rules),  explicit vs implicit ids with renamed ids, consistent renaming of "
        "node labels and edge labels, FiniteDomain vs RangeDomain values, and a permutation of every domain's values applied to the "
        "matching axes of all factors; oracle (metamorphic + reference): sum_product in sampled semiring/method configurations, Real/Log "
        "gradients (mapped back through the permutations) and the weight of the viterbi derivation agree between the two presentations "
        "(start tensor permuted accordingly) and with the independent evaluator. Workers also differ in PYTHONHASHSEED. "
        "non-trivial = transform non-identity on >= 2 of {rule order, node/edge order, ids, names, value order} and >= 2 rules; "
        "distinct by case hash")
ASSUMPTIONS = ["only the weight of the Viterbi derivation is compared (ties may resolve differently)", "tolerances as C01/C02/C03",
               "Real/Log judged on admitted specs (finite Z, rho<=0.9)"]
ESSENTIAL_LABELS = ['dead-rule-first', 't:start-last', 'nonlinear-tail', 't:rule-order', 't:node-order', 't:edge-order', 't:ids', 't:names', 't:value-perm', 'recursive']
KINDS = ['real', 'log', 'viterbi', 'bool']
METHODS = ['fixed-point', 'newton', 'linear']


def budget(tier):
    return {'examples': 320 if tier == 'quick' else 6000, 'shrink_calls': 150}


@st.composite
def cases(draw, tier):
    rec = draw(st.booleans())
    spec = draw(gen_fgg.specs(recursive=rec, weights=(0.0, 0.25, 0.5, 0.5, 1.0, 1.0), max_nts=3, max_dom=3, max_edges=4, max_nodes=6))
    if rec and draw(st.integers(0, 4)) == 0:
        gen_fgg.inject_nonlinear_tail(draw, spec)      # X -> X X ... t with t (used nowhere else) after the nonterminal edges
    if spec['rules'] and draw(st.integers(0, 4)) == 0:
        gen_fgg.inject_dead_rule(draw, spec)           # a rule without derivations listed before the live rules of its lhs
    nr = len(spec['rules'])
    tr = {
        'start_last': draw(st.booleans()),
        'rule_perm': list(draw(st.permutations(list(range(nr))))) if nr > 1 and draw(st.booleans()) else list(range(nr)),
        'node_perms': [list(draw(st.permutations(list(range(len(r['nodes'])))))) if len(r['nodes']) > 1 and draw(st.booleans()) else list(range(len(r['nodes']))) for r in spec['rules']],
        'edge_perms': [list(draw(st.permutations(list(range(len(r['edges'])))))) if len(r['edges']) > 1 and draw(st.booleans()) else list(range(len(r['edges']))) for r in spec['rules']],
        'explicit_ids': draw(st.booleans()),
        'id_prefix': draw(st.sampled_from(['v', 'zz', 'A', '9'])),
        'rename_nl': draw(st.booleans()), 'rename_el': draw(st.booleans()),
        'range_domains': draw(st.booleans()),
        'value_perms': {n: (list(draw(st.permutations(list(range(s))))) if s > 1 and draw(st.booleans()) else list(range(s))) for n, s in spec['node_labels'].items()},
    }
    configs = [[draw(st.sampled_from(KINDS)), draw(st.sampled_from(METHODS))] for _ in range(3 if tier == 'quick' else 6)]
    # duplicate-production scenario (no extra draws, so the stream of the other cases is unchanged): every fourth spec lists its last
    # rule twice (legal: the production counts twice), the copy is presented with the same node and edge order, and all ids are explicit
    # and unique per rule only -- the two rules are then equal *objects* (Graph.__eq__ compares ids), which must not make one disappear
    # (seeded change C12-9)
    if nr and (nr + len(spec['terminals'])) % 4 == 0:
        import copy
        spec['rules'].append(copy.deepcopy(spec['rules'][-1]))
        tr['rule_perm'].insert(tr['rule_perm'].index(nr - 1) + 1, nr)
        tr['node_perms'].append(list(tr['node_perms'][nr - 1])); tr['edge_perms'].append(list(tr['edge_perms'][nr - 1]))
        tr['explicit_ids'] = True; tr['per_rule_ids'] = True
    return {'spec': spec, 'transform': tr, 'configs': configs}


def strategy(tier):
    return cases(tier)


def permute_weights(w, type_, vperms):
    """w'[pi(i), ...] = w[i, ...] along every axis."""
    a = np.asarray(w, dtype=float)
    for ax, nl in enumerate(type_):
        pi = vperms[nl]
        inv = np.argsort(pi)          # a'[pi[i]] = a[i]  <=>  a' = a[inv]
        a = np.take(a, inv, axis=ax)
    return a.tolist()


def present(spec, tr):
    """The transformed spec, and the maps needed to translate results back."""
    nlmap = {n: (f'L{i}x' if tr['rename_nl'] else n) for i, n in enumerate(reversed(list(spec['node_labels'])))}
    all_el = list(spec['terminals']) + list(spec['nonterminals'])
    elmap = {n: (f'q{len(all_el) - i}' if tr['rename_el'] else n) for i, n in enumerate(all_el)}
    vp = tr['value_perms']
    out = {'node_labels': {}, 'terminals': {}, 'nonterminals': {}, 'rules': []}
    for n in reversed(list(spec['node_labels'])):
        out['node_labels'][nlmap[n]] = spec['node_labels'][n]
    for n in reversed(list(spec['terminals'])):
        t = spec['terminals'][n]
        out['terminals'][elmap[n]] = {'type': [nlmap[x] for x in t['type']], 'weights': permute_weights(t['weights'], t['type'], vp) if t['type'] else t['weights']}
    for n in reversed(list(spec['nonterminals'])):
        out['nonterminals'][elmap[n]] = [nlmap[x] for x in spec['nonterminals'][n]]
    out['start'] = elmap[spec['start']]
    for ri in tr['rule_perm']:
        r = spec['rules'][ri]
        npm = tr['node_perms'][ri]                     # new position j holds old node npm[j]
        old2new = {old: new for new, old in enumerate(npm)}
        edges = [r['edges'][k] for k in tr['edge_perms'][ri]]
        out['rules'].append({'lhs': elmap[r['lhs']], 'nodes': [nlmap[r['nodes'][old]] for old in npm],
                             'ext': [old2new[p] for p in r['ext']],
                             'edges': [{'label': elmap[e['label']], 'att': [old2new[a] for a in e['att']]} for e in edges]})
    return out, nlmap, elmap


def back_permute(arr, type_, vperms):
    """Translate a tensor of the transformed presentation back: orig[i] = arr[pi(i)]."""
    a = np.asarray(arr)
    for ax, nl in enumerate(type_):
        a = np.take(a, vperms[nl], axis=ax)
    return a


def check(case, ctx):
    import torch, fggs
    spec0 = case['spec']
    tr = case['transform']
    feats = gen_fgg.spec_features(spec0)
    ctx.label(*feats)
    spec = spec0
    rho = None
    fp = None
    if gen_fgg.is_recursive(spec0):
        s, fp_, h = admit.admit(spec0)
        if s is None:
            ctx.skip('not admissible'); return
        spec, fp, rho = s, fp_, fp_['rho_inf']
    spec2, nlmap, elmap = present(spec, tr)
    ident = lambda p: p == list(range(len(p)))
    t_rule = not ident(tr['rule_perm']); t_node = any(not ident(p) for p in tr['node_perms']); t_edge = any(not ident(p) for p in tr['edge_perms'])
    t_val = any(not ident(p) for p in tr['value_perms'].values())
    ctx.label('t:rule-order' if t_rule else None, 't:node-order' if t_node else None, 't:edge-order' if t_edge else None,
              't:ids' if tr['explicit_ids'] else None, 't:names' if tr['rename_nl'] or tr['rename_el'] else None, 't:value-perm' if t_val else None,
              't:range-domains' if tr['range_domains'] else None, 't:start-last' if tr.get('start_last') and len({r['lhs'] for r in spec['rules']}) > 1 else None,
              'duplicate-production' if tr.get('per_rule_ids') else None, 'dead-rule-first' if 'D' in spec['nonterminals'] else None, 'nonlinear-tail' if any(n.startswith('tz') for n in spec['terminals']) else None)
    start = spec['start']; stype = spec['nonterminals'][start]
    # references
    def reference(kind):
        if kind == 'bool': return admit.bool_reference(spec)[0][start]
        if kind == 'viterbi':
            if gen_fgg.is_recursive(spec): return admit.viterbi_reference(spec)[0][start]
            return of.NumEval(spec, of.MaxPlusOps).nonrecursive()[start]
        real = fp['x'][start].numpy() if fp is not None else of.NumEval(spec, of.RealOps).nonrecursive()[start]
        if kind == 'real': return real
        with np.errstate(divide='ignore'):
            return np.log(real)
    lin = gen_fgg.is_linear(spec)
    seen = set()
    cache = {}
    for kind, method in case['configs']:
        if (kind, method) in seen or (method == 'linear' and not lin): continue
        seen.add((kind, method))
        cfg = f'{kind}/{method}'
        dtype = torch.float64
        try:
            f1, i1 = gen_fgg.build(spec, kind, dtype)
            f2, i2 = gen_fgg.build(spec2, kind, dtype, explicit_ids=tr['explicit_ids'], range_domains=tr['range_domains'],
                                   node_prefix=tr['id_prefix'], edge_prefix=tr['id_prefix'] + 'e', start_last=tr.get('start_last', False), per_rule_ids=tr.get('per_rule_ids', False))
        except Exception as e:
            ctx.violation('build-failed', f'{type(e).__name__}: {e}'); return
        want_grad = kind in ('real', 'log')
        if want_grad:
            for f in list(f1.factors.values()) + list(f2.factors.values()): f.weights.requires_grad_()
        res = []
        try:
            with warnings.catch_warnings():
                warnings.simplefilter('ignore')
                for which, fg in (('original', f1), ('transformed', f2)):
                    z = ctx.call(f'sum_product[{which}]', fggs.sum_product, fg, method=method, semiring=gen_fgg.make_semiring(kind, dtype), tol=1e-11, kmax=5000)
                    res.append(ctx.call('to_dense', z.to_dense))
        except Exception:
            ctx.violations[-1].detail['config'] = cfg
            continue
        a1 = cmp.to_numpy(res[0]); a2 = back_permute(cmp.to_numpy(res[1]), stype, tr['value_perms'])
        ref = reference(kind)
        tol = 1e-6 if gen_fgg.is_recursive(spec) else 1e-9
        m = cmp.compare(a2, a1, kind, 'float64', rtol=tol, what=f'[{cfg}] transformed vs original: ')
        ctx.require(m is None, 'presentation-dependent', m or '', config=cfg, sr=kind)
        for nm, a in (('original', a1), ('transformed', a2)):
            m = cmp.compare(a, ref, kind, 'float64', rtol=tol, what=f'[{cfg}] {nm} vs reference: ')
            ctx.require(m is None, 'wrong-value', m or '', config=cfg, sr=kind, which=nm)
        if want_grad and res[0].requires_grad and res[1].requires_grad:
            try:
                for zd in res:
                    if kind == 'real': f_ = zd.sum()
                    else:
                        mask = zd > -math.inf
                        if not bool(mask.any()): raise StopIteration
                        f_ = zd[mask].sum()
                    ctx.call('backward', f_.backward)
            except StopIteration:
                continue
            except Exception:
                ctx.violations[-1].detail['config'] = cfg
                continue
            for n, t in spec['terminals'].items():
                g1 = f1.factors[n].weights.grad; g2 = f2.factors[elmap[n]].weights.grad
                d1 = np.zeros(gen_fgg.shape_of(spec, t['type'])) if g1 is None else cmp.to_numpy(g1.to_dense())
                d2 = np.zeros(gen_fgg.shape_of(spec, t['type'])) if g2 is None else cmp.to_numpy(g2.to_dense())
                d2 = back_permute(d2, t['type'], tr['value_perms'])
                sel = ~(np.isnan(d1) | np.isnan(d2))
                if kind == 'log': sel &= (np.asarray(t['weights'], dtype=float) > 0)
                if not sel.any(): continue
                sc = float(np.max(np.abs(d1[sel])))
                allow = 0.0
                if fp is not None:
                    # both runs are only within the derived bound B of x*; the gradient moves by at most its sensitivity to that
                    key = ('sens', kind)
                    if key not in cache:
                        scale_all = max([float(v.abs().max()) for v in fp['x'].values() if v.numel()] + [0.0])
                        Bk = (1e-11 / (1 - rho)) if kind == 'real' else scale_all * math.expm1(1e-11) / (1 - rho)
                        cache[key] = admit.gradient_sensitivity(fp, start, torch.ones_like(fp['x'][start]), list(spec['terminals']), 4 * Bk + 1e-13 * scale_all, log_domain=(kind == 'log'))
                    allow = 8 * cache[key][n][sel]
                ok = bool(np.all(np.abs(d1[sel] - d2[sel]) <= 1e-6 * np.abs(d1[sel]) + 1e-8 * (1 + sc) + allow))
                ctx.require(ok, 'gradient-presentation-dependent', f'[{cfg}] d/d{n}: original {d1.tolist()} transformed (mapped back) {d2.tolist()}', config=cfg, sr=kind)
    # viterbi derivation weight
    # (on the spec as drawn, not the rescaled one: all weights are <= 1, which is all the max-plus reference needs, and weights of
    # exactly one give the exact ties between rules and zero-cost cycles on which tie-breaking by rule order matters)
    specv, specv2 = spec0, present(spec0, tr)[0]
    if gen_fgg.is_recursive(spec0):
        vref, rounds = admit.viterbi_reference(spec0)
        vref = vref[start] if rounds is not None else None
    else:
        vref = of.NumEval(spec0, of.MaxPlusOps).nonrecursive()[start]
    if vref is None:
        vref = reference('viterbi'); specv, specv2 = spec, spec2
    shape = np.asarray(vref).shape
    assts = [a for a in itertools.product(*[range(s) for s in shape]) if np.isfinite(vref[a] if a else vref)]
    if len(assts) > 3: assts = [assts[0], assts[len(assts) // 2], assts[-1]]
    for a in assts:
        try:
            f1, _ = gen_fgg.build(specv, 'viterbi', torch.float64)
            f2, _ = gen_fgg.build(specv2, 'viterbi', torch.float64, explicit_ids=tr['explicit_ids'], range_domains=tr['range_domains'],
                                  node_prefix=tr['id_prefix'], edge_prefix=tr['id_prefix'] + 'e', start_last=tr.get('start_last', False), per_rule_ids=tr.get('per_rule_ids', False))
            a2 = tuple(tr['value_perms'][nl][v] for nl, v in zip(stype, a))
            vsr = fggs.ViterbiSemiring(dtype=torch.float64)
            d1 = ctx.call('viterbi[original]', fggs.viterbi, f1, tuple(a), semiring=vsr)
            d2 = ctx.call('viterbi[transformed]', fggs.viterbi, f2, a2, semiring=vsr)
            with np.errstate(divide='ignore'):
                lw1 = {n: np.log(np.asarray(t['weights'], dtype=float)) for n, t in specv['terminals'].items()}
                lw2 = {n: np.log(np.asarray(t['weights'], dtype=float)) for n, t in specv2['terminals'].items()}
                w1 = c04.deriv_weight(d1, f1, f1.start, a, None, specv, lw1)
                w2 = c04.deriv_weight(d2, f2, f2.start, a2, None, specv2, lw2)
            opt = float(vref[a] if a else vref)
            tolv = 1e-9 * (1 + abs(opt))
            ctx.require(abs(w1 - w2) <= tolv and abs(w1 - opt) <= tolv, 'viterbi-weight-presentation-dependent',
                        f'start asst {a}: original derivation weight {w1}, transformed {w2}, optimum {opt}')
            ctx.label('viterbi-compared')
        except c04.Malformed as m:
            ctx.violation('malformed-derivation', str(m)); break
        except RecursionError:
            ctx.violation('malformed-derivation', f'start asst {a}: derivation tree is cyclic / too deep'); break
        except Exception as e:
            if not ctx.violations: raise
            break
    n_t = sum([t_rule, t_node or t_edge, tr['explicit_ids'], tr['rename_nl'] or tr['rename_el'], t_val])
    ctx.nontrivial = n_t >= 2 and len(spec['rules']) >= 2


def route(case, v):
    return None


def selfcheck():
    of.selfcheck()
    # permute/back_permute are inverse
    w = [[1., 2., 3.], [4., 5., 6.]]
    vp = {'A': [1, 0], 'B': [2, 0, 1]}
    p = permute_weights(w, ['A', 'B'], vp)
    assert p[1][2] == 1. and p[0][0] == 5.
    assert back_permute(p, ['A', 'B'], vp).tolist() == w
