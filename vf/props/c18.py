"""C18  Queries are pure: inputs are never mutated, results are reproducible."""
from __future__ import annotations
import json, math, warnings
import numpy as np
from hypothesis import strategies as st
from .. import gen_fgg, gen_pattern as gp, admit

ID = 'C18'
RULE = ("(queries) a G1 spec (recursive specs rescaled to a finite sum-product; dense and typed patterned weights, with or without "
        "requires_grad) is built once, then a drawn sequence of 4-10 queries runs on the same objects: sum_product / sum_products "
        "(4 semirings x 3 methods), viterbi, factorize_rule / factorize_hrg / factorize_fgg (3 methods), conjoin_hrgs with a second grammar, "
        "fgg_to_json / hrg_to_json, each possibly repeated later; before/after every call a deep snapshot of every argument (rule lists and "
        "order, node/edge objects and ids, ext, label tables, start, domains, and per weight tensor: storage bytes, size, stride, offset, "
        "pattern, default, dtype, requires_grad, grad is None) must be identical, and every repetition of a query must return a result "
        "equal to its first result (tensors bit-equal, structures equal up to fresh ids). (tensors) in-place operations applied to a clone "
        "of a patterned tensor / MultiTensor must leave the source's snapshot unchanged. non-trivial = >= 3 queries of >= 2 kinds with a "
        "repetition after an intervening different query; distinct by case hash")
ASSUMPTIONS = ["j_precompute=True is not exercised here (listed finding of C11)", "the labels argument of factorize_rule is documented as updated in place and is not snapshotted",
               "an exception raised by an operation on a clone is not a violation of this property; only a change of the source is"]
ESSENTIAL_LABELS = ['q:sum_product', 'q:viterbi', 'q:factorize', 'q:conjoin', 'q:json', 'repeat-after-other', 'requires-grad', 'mode:tensors', 'mode:multi']
KINDS = ['real', 'log', 'viterbi', 'bool']
METHODS = ['fixed-point', 'newton', 'linear']
QUERIES = ['sum_product', 'sum_product', 'sum_products', 'viterbi', 'factorize_rule', 'factorize_hrg', 'factorize_fgg', 'conjoin', 'fgg_to_json', 'hrg_to_json']
INPLACE = ['neg_', 'log_', 'log1p_', 'relu_', 'abs_', 'nan_to_num_', 'imul_s', 'itruediv_s', 'imul_t', 'itruediv_t', 'copy_', 'requires_grad_', 'masked']


def budget(tier):
    return {'examples': 320 if tier == 'quick' else 5000, 'shrink_calls': 150}


@st.composite
def cases(draw, tier):
    mode = draw(st.sampled_from(['queries', 'queries', 'queries', 'tensors', 'multi']))
    if mode == 'tensors':
        nd = draw(st.integers(1, 3))
        tys = [draw(gp.types(max_numel=8, depth=2)) for _ in range(nd)]
        return {'mode': 'tensors', 't': draw(gp.tensor_specs(tys, values=(0.0, 1.0, -1.0, 2.0, 0.5, math.inf))),
                'u': draw(gp.tensor_specs(tys, values=(0.0, 1.0, 3.0))),
                'ops': [[draw(st.sampled_from(INPLACE)), draw(st.integers(0, 5))] for _ in range(draw(st.integers(1, 5)))]}
    if mode == 'multi':
        keys = ['A', 'B', 'C'][:draw(st.integers(1, 3))]
        shapes = {k: [draw(st.sampled_from([2, 3]))] * draw(st.integers(0, 2)) for k in keys}
        blk = lambda k: draw(gp.tensor_specs([['atom', n] for n in shapes[k]], values=(0.0, 1.0, 2.0, 0.5), defaults=(0.0,)))
        m1 = {k: blk(k) for k in keys if draw(st.booleans())}
        m2 = {k: blk(k) for k in keys if draw(st.booleans())}
        return {'mode': 'multi', 'keys': keys, 'shapes': shapes, 'm1': m1, 'm2': m2,
                'ops': [draw(st.sampled_from(['iadd', 'isub', 'maximum_', 'copy_', 'add_single'])) for _ in range(draw(st.integers(1, 4)))]}
    rec = draw(st.booleans())
    wts = (0.0, 0.25, 0.5, 1.0) if rec else (0.0, 0.25, 0.5, 1.0, 2.0, 3.0)
    base = gen_fgg.specs(recursive=rec, weights=wts, max_nts=3, max_dom=2, max_edges=3, max_nodes=5)
    # patterned weights, a third of them with a default that is not the semiring zero (elements outside the pattern have weight 1 or 1/2)
    spec = draw(gen_fgg.patterned(base, weights=wts, p_bcast=0.0, defaults=(0.0, 0.0, 1.0, 0.5)) if draw(st.integers(0, 2)) == 0 else base)
    other = draw(gen_fgg.specs(recursive=False, weights=(0.5, 1.0), max_nts=2, max_dom=2, max_edges=2, max_nodes=4))
    nq = draw(st.integers(4, 10))
    qs = []
    for _ in range(nq):
        if qs and draw(st.integers(0, 3)) == 0:
            qs.append(dict(qs[draw(st.integers(0, len(qs) - 1))]))       # repeat an earlier query verbatim
        else:
            qs.append({'q': draw(st.sampled_from(QUERIES)), 'kind': draw(st.sampled_from(KINDS)), 'method': draw(st.sampled_from(METHODS)),
                       'fm': draw(st.sampled_from(['min_fill', 'quickbb', 'acb'])), 'n': draw(st.integers(0, 7))})
    return {'mode': 'queries', 'spec': spec, 'other': other, 'queries': qs, 'requires_grad': draw(st.booleans()), 'ids': draw(st.sampled_from(['none', 'all', 'mixed']))}


def strategy(tier):
    return cases(tier)


# ------------------------------------------------------------------ deep snapshots

def snap_pt(t):
    p = t.physical
    try:
        raw = bytes(p.untyped_storage())
    except Exception:
        raw = p.detach().contiguous().numpy().tobytes()
    return (raw, tuple(p.shape), tuple(p.stride()), p.storage_offset(), str(p.dtype), p.requires_grad, p.grad is None,
            tuple(id(k) for k in t.paxes), tuple(k.numel() for k in t.paxes), repr([e.depict(lambda k: str(id(k))) for e in t.vaxes]), repr(t.default))


def snap_graph(g):
    return (tuple((id(v), v.id, v.label.name, v.persist_id) for v in g.nodes()),
            tuple((id(e), e.id, e.label.name, e.label.is_terminal, tuple(id(v) for v in e.nodes)) for e in g.edges()),
            tuple(id(v) for v in g.ext),
            tuple((n.name) for n in g.node_labels()), tuple((l.name, l.is_terminal, tuple(x.name for x in l.type)) for l in g.edge_labels()))


def snap_hrg(h):
    import fggs
    s = [h.start.name, tuple(n.name for n in h.node_labels()), tuple((l.name, l.is_terminal, tuple(x.name for x in l.type)) for l in h.edge_labels()),
         tuple((id(r), r.lhs.name, id(r.rhs), snap_graph(r.rhs)) for r in h.all_rules())]
    # the attribute names of the grammar object and of its rule graphs (a query that attaches a cache to its argument changes it;
    # a stale cache then makes later answers depend on which queries ran before) and the process-wide torch state
    import torch
    s.append((tuple(sorted(vars(h))), tuple(tuple(sorted(vars(r.rhs))) for r in h.all_rules()), torch.is_grad_enabled(), str(torch.get_default_dtype())))
    if isinstance(h, fggs.FGG):
        s.append(tuple((n, repr(d.to_json()), id(d)) for n, d in h.domains.items()))
        s.append(tuple((n, id(f), id(f.weights), snap_pt(f.weights), tuple(id(d) for d in f.domains)) for n, f in h.factors.items()))
    return tuple(s)


# ------------------------------------------------------------------ canonical results (equal up to fresh ids)

def canon_tensor(t):
    dd = t.to_dense()
    d = dd.detach()
    # whether the result is connected to the autograd graph is part of the result (a query that silently switches
    # requires_grad off on the weights makes the next sum_product non-differentiable)
    return ('tensor', tuple(d.shape), str(d.dtype), d.contiguous().numpy().tobytes(), bool(dd.requires_grad))


def canon_rule(r):
    g = r.rhs
    names = {}
    for v in g.nodes():
        names[id(v)] = v.id if isinstance(v.id, str) else None
    # implicit ids: name by (label, degree signature) position in a sorted list -- stable for shared Node objects: use the object id of
    # nodes that already existed (shared with the input) and a structural placeholder otherwise
    def nm(v): return v.id if isinstance(v.id, str) else ('obj', id(v))
    return (r.lhs.name, tuple(sorted((repr(nm(v)), v.label.name) for v in g.nodes())), tuple(repr(nm(v)) for v in g.ext),
            tuple(sorted((e.label.name, tuple(repr(nm(v)) for v in e.nodes), e.id if isinstance(e.id, str) else None) for e in g.edges())))


def canon_hrg(h):
    return ('hrg', h.start.name, tuple(sorted((l.name, l.is_terminal) for l in h.edge_labels())), tuple(canon_rule(r) for r in h.all_rules()))


def canon_deriv(d, fgg):
    rules = fgg.rules(d.rule.lhs)
    ri = [i for i, r in enumerate(rules) if r is d.rule]
    return (d.rule.lhs.name, ri[0] if ri else -1, tuple(sorted((repr(v.id) if isinstance(v.id, str) else str(list(d.rule.rhs.nodes()).index(v)), val) for v, val in d.asst.items())),
            tuple(sorted((list(d.rule.rhs.edges()).index(e), canon_deriv(c, fgg)) for e, c in d.children.items())))


def run_query(q, fgg, info, other, spec, ctx):
    """Executes one query; returns (canonical result, list of argument objects to snapshot)."""
    import torch, fggs
    from fggs import factorize as fz
    kind = q['kind']; dtype = torch.float64
    with warnings.catch_warnings():
        warnings.simplefilter('ignore')
        if q['q'] in ('sum_product', 'sum_products'):
            method = q['method']
            # method='linear' on a grammar that is not linearly recursive raises the documented ValueError: kept for odd n (an
            # exception path must leave the arguments and the process state alone as well), replaced by newton otherwise
            if method == 'linear' and not gen_fgg.is_linear(spec) and q['n'] % 2 == 0: method = 'newton'
            g = fgg[kind]
            opts = dict(method=method, semiring=gen_fgg.make_semiring(kind, dtype), tol=1e-8, kmax=500)
            if q['q'] == 'sum_product':
                return canon_tensor(fggs.sum_product(g, **opts))
            zs = fggs.sum_products(g, **opts)
            return tuple((el.name, canon_tensor(t)) for el, t in zs.items())
        if q['q'] == 'viterbi':
            # decoding the grammar that is being trained: the Log-semiring grammar (same log-domain weights, possibly requiring
            # gradients) is a legitimate argument of viterbi
            g = fgg['log'] if kind == 'log' else fgg['viterbi']
            shape = g.shape(g.start)
            asst = tuple((q['n'] + i) % s for i, s in enumerate(shape)) if all(s > 0 for s in shape) else None
            if asst is None: return ('skip',)
            z = fggs.sum_product(g, semiring=fggs.ViterbiSemiring(dtype=dtype), method='fixed-point').to_dense()
            if not math.isfinite(float(z[asst] if asst else z)): return ('no-derivation',)
            return canon_deriv(fggs.viterbi(g, asst, semiring=fggs.ViterbiSemiring(dtype=dtype)), g)
        g = fgg['real']
        if q['q'] == 'factorize_rule':
            rules = g.all_rules()
            if not rules: return ('skip',)
            return tuple(canon_rule(r) for r in fz.factorize_rule(rules[q['n'] % len(rules)], method=q['fm']))
        if q['q'] == 'factorize_hrg': return canon_hrg(fz.factorize_hrg(g, method=q['fm']))
        if q['q'] == 'factorize_fgg':
            n = fz.factorize_fgg(g, method=q['fm'])
            return canon_hrg(n) + (tuple(sorted(n.factors)), tuple(sorted(n.domains)))
        if q['q'] == 'conjoin':
            if q['n'] % 3 == 0:
                return canon_hrg(fggs.conjoin_hrgs(g, other) if q['n'] % 2 else fggs.conjoin_hrgs(other, g))
            return canon_hrg(fggs.conjoin_hrgs(fgg['cj1'], fgg['cj2']) if q['n'] % 2 else fggs.conjoin_hrgs(fgg['cj2'], fgg['cj1']))
        # the JSON writers are asked about the grammar of the query's semiring: Log/Viterbi weights contain -inf
        gj = fgg[kind]
        if q['q'] == 'fgg_to_json': return json.dumps(fggs.fgg_to_json(gj), sort_keys=True)
        if q['q'] == 'hrg_to_json': return json.dumps(fggs.hrg_to_json(gj), sort_keys=True)
    raise ValueError(q['q'])


def check(case, ctx):
    ctx.label('mode:' + case['mode'])
    if case['mode'] == 'tensors': return check_tensors(case, ctx)
    if case['mode'] == 'multi': return check_multi(case, ctx)
    import torch, fggs
    spec0 = case['spec']
    spec = spec0
    if gen_fgg.is_recursive(spec0):
        s, fp, h = admit.admit(spec0)
        if s is None: ctx.skip('not admissible'); return
        spec = s
    ids = {'none': False, 'all': True, 'mixed': 'mixed'}[case['ids']]
    fgg = {}
    try:
        for kind in KINDS:
            g, info = gen_fgg.build(spec, kind, torch.float64, explicit_ids=ids, node_prefix='a', edge_prefix='b')
            if case['requires_grad'] and kind in ('real', 'log'):
                for f in g.factors.values(): f.weights.requires_grad_()
            fgg[kind] = g
        # second grammar for conjunction: disjoint ids/labels except node labels
        o = dict(case['other'])
        o = {'node_labels': {('M' + k): v for k, v in o['node_labels'].items()},
             'terminals': {('o' + k): {'type': ['M' + x for x in t['type']], 'weights': t['weights']} for k, t in o['terminals'].items()},
             'nonterminals': {('O' + k): ['M' + x for x in t] for k, t in o['nonterminals'].items()}, 'start': 'O' + o['start'],
             'rules': [{'lhs': 'O' + r['lhs'], 'nodes': ['M' + x for x in r['nodes']], 'ext': r['ext'],
                        'edges': [{'label': ('O' if e['label'] in o['nonterminals'] else 'o') + e['label'], 'att': e['att']} for e in r['edges']]} for r in o['rules']]}
        other, _ = gen_fgg.build(o, 'real', torch.float64, explicit_ids=True, node_prefix='x', edge_prefix='y')
        # a pair of grammars over the same skeletons (shared node and nonterminal-edge ids, own terminal-edge ids, own label
        # names), so that conjoin_hrgs actually conjoins rules
        ren = lambda sp, pn, pt: {'node_labels': sp['node_labels'],
                                  'terminals': {pt + k: {'type': t['type'], 'weights': t['weights']} for k, t in sp['terminals'].items()},
                                  'nonterminals': {pn + k: t for k, t in sp['nonterminals'].items()}, 'start': pn + sp['start'],
                                  'rules': [{'lhs': pn + r['lhs'], 'nodes': r['nodes'], 'ext': r['ext'],
                                             'edges': [{'label': (pn if e['label'] in sp['nonterminals'] else pt) + e['label'], 'att': e['att']} for e in r['edges']]} for r in sp['rules']]}
        plain = {k: v for k, v in spec.items() if k != 'label_types'}
        plain['terminals'] = {k: {'type': t['type'], 'weights': t['weights']} for k, t in spec['terminals'].items()}
        cj1, _ = gen_fgg.build(ren(plain, 'P', 'p'), 'real', torch.float64, explicit_ids=True, node_prefix='n', edge_prefix='m', term_edge_prefix='p')
        cj2, _ = gen_fgg.build(ren(plain, 'Q', 'q'), 'real', torch.float64, explicit_ids=True, node_prefix='n', edge_prefix='m', term_edge_prefix='q')
        fgg['cj1'] = cj1; fgg['cj2'] = cj2
    except Exception as e:
        ctx.violation('build-failed', f'{type(e).__name__}: {e}'); return
    if case['requires_grad']: ctx.label('requires-grad')
    # pristine copies taken before any query: '==' must keep holding (it also sees state that the accessors used by the
    # snapshots do not show, e.g. an entry for a rule-less nonterminal appearing in the rule table)
    try:
        pristine = {k: g.copy() for k, g in fgg.items()}
        if not ctx.require(all(pristine[k] == fgg[k] and fgg[k] == pristine[k] for k in fgg), 'copy-not-equal', 'a fresh copy differs from its original'):
            return
    except Exception as e:
        ctx.violation('copy-failed', f'{type(e).__name__}: {e}'); return
    first = {}
    order = []
    nontrivial = False
    for qi, q in enumerate(case['queries']):
        key = json.dumps(q, sort_keys=True)
        before = {k: snap_hrg(g) for k, g in fgg.items()}, snap_hrg(other)
        try:
            res = ('ok', run_query(q, fgg, None, other, spec, ctx))
        except Exception as e:
            res = ('raised', type(e).__name__)
        after = {k: snap_hrg(g) for k, g in fgg.items()}, snap_hrg(other)
        qn = {'sum_products': 'sum_product', 'factorize_rule': 'factorize', 'factorize_hrg': 'factorize', 'factorize_fgg': 'factorize',
              'fgg_to_json': 'json', 'hrg_to_json': 'json'}.get(q['q'], q['q'])
        ctx.label('q:' + qn, 'query-raised' if res[0] == 'raised' else None)
        if not ctx.require(before == after, 'argument-mutated', f'query {qi} {q}: ' + diff_snap(before, after), query=q['q']):
            return
        if not ctx.require(all(pristine[k] == fgg[k] and fgg[k] == pristine[k] for k in fgg), 'argument-mutated',
                           f'query {qi} {q}: the grammar no longer equals the copy taken before the first query', query=q['q']):
            return
        if key in first:
            if not ctx.require(first[key] == res, 'result-not-reproducible', f'query {qi} {q}: result differs from the first time it was asked: {str(first[key])[:400]} vs {str(res)[:400]}', query=q['q']):
                return
            last = max(i for i, k in enumerate(order) if k == key)
            if any(k != key for k in order[last + 1:]):
                ctx.label('repeat-after-other'); nontrivial = True
        else:
            first[key] = res
        order.append(key)
    kinds = {json.loads(k)['q'] for k in order}
    ctx.nontrivial = nontrivial and len(order) >= 3 and len(kinds) >= 2


def diff_snap(b, a):
    for k in b[0]:
        if b[0][k] != a[0][k]:
            for i, (x, y) in enumerate(zip(b[0][k], a[0][k])):
                if x != y: return f'grammar[{k}] component {i} changed: {str(x)[:300]} -> {str(y)[:300]}'
    if b[1] != a[1]: return 'second grammar changed'
    return 'changed'


def check_tensors(case, ctx):
    import torch
    try:
        t = gp.build_pt(case['t']); u = gp.build_pt(case['u'])
    except Exception as e:
        ctx.violation('construct-failed', f'{type(e).__name__}: {e}'); return
    dense0 = t.to_dense().clone()
    before = snap_pt(t), snap_pt(u)
    c = ctx.call('clone', t.clone)
    ctx.require(snap_pt(t) == before[0], 'clone-changed-source', '')
    for op, n in case['ops']:
        try:
            if op in ('neg_', 'log_', 'log1p_', 'relu_', 'abs_'): getattr(c, op)()
            elif op == 'nan_to_num_': c.nan_to_num_(nan=0.0, posinf=math.inf, neginf=-math.inf)
            elif op == 'imul_s': c *= (n - 2)
            elif op == 'itruediv_s': c /= (n + 1)
            elif op == 'imul_t': c *= u
            elif op == 'itruediv_t': c /= u
            elif op == 'copy_': c.copy_(u)
            elif op == 'requires_grad_': pass
            elif op == 'masked':
                dest = torch.zeros(tuple(c.size()))
                c.gt(0.5).masked_fill_into(dest, 3.0)
        except Exception:
            ctx.label('clone-op-raised')
        ctx.label('op:' + op)
        if not ctx.require((snap_pt(t), snap_pt(u)) == before, 'inplace-on-clone-changed-source', f'after {op} on the clone the source changed', op=op):
            return
        if not ctx.require(bool(((t.to_dense() == dense0) | (t.to_dense().isnan() & dense0.isnan())).all()), 'inplace-on-clone-changed-source', f'{op}: dense value of the source changed', op=op):
            return
    ctx.nontrivial = gp.is_structured(case['t']) and len(case['ops']) >= 2


def check_multi(case, ctx):
    import torch, fggs
    from fggs.multi import MultiTensor
    sr = fggs.RealSemiring(dtype=torch.float64)
    shapes = {k: torch.Size(case['shapes'][k]) for k in case['keys']}
    m1, m2 = MultiTensor(shapes, sr), MultiTensor(shapes, sr)
    try:
        for k, s in case['m1'].items(): m1[k] = gp.build_pt(s)
        for k, s in case['m2'].items(): m2[k] = gp.build_pt(s)
    except Exception as e:
        ctx.violation('construct-failed', f'{type(e).__name__}: {e}'); return
    snap = lambda m: tuple((k, id(v), snap_pt(v)) for k, v in m.items())
    before = snap(m1), snap(m2)
    c = ctx.call('MultiTensor.clone', m1.clone)
    ctx.require((snap(m1), snap(m2)) == before, 'clone-changed-source', 'MultiTensor.clone')
    for op in case['ops']:
        try:
            if op == 'iadd': c += m2
            elif op == 'isub': c -= m2
            elif op == 'maximum_': c.maximum_(m2)
            elif op == 'copy_': c.copy_(m2)
            elif op == 'add_single':
                for k, v in m2.items(): c.add_single(k, v)
        except Exception:
            ctx.label('clone-op-raised')
        ctx.label('op:' + op)
        # the statement is about the source of the clone (m1); the other operand m2 may become aliased by += (add_single
        # stores the operand's block itself), which is recorded as an observation only
        if snap(m2) != before[1]: ctx.label('operand-representation-changed')
        if not ctx.require(snap(m1) == before[0], 'inplace-on-clone-changed-source', f'MultiTensor {op} on the clone changed the source', op=op):
            return
    ctx.nontrivial = bool(case['m1']) and bool(case['m2'])


def route(case, v):
    return None


def selfcheck():
    pass
