"""C13  equal and allclose decide (approximate) equality of the denoted tensors."""
from __future__ import annotations
import itertools, math
import numpy as np
from hypothesis import strategies as st
from .. import gen_pattern as gp

ID = 'C13'
RULE = ("pairs of typed patterned tensors over a common type list (1-3 dims, numel<=12): (a) equal by construction -- one "
        "dense tensor, non-default only on the intersection of two independently drawn supports, gathered under both patterns; "
        "(b) the same with one perturbation (an overlap element, a one-sided-support element, or a default) of size "
        "{1e-9,0.01,0.3,1,inf,nan}; (c) independent random pairs; (d) shapes differing; plus representation variants (clone, "
        "densification, same object, double transpose) and MultiTensor.allclose with absent blocks on either side; x tolerances "
        "(rtol,atol) in {0,1e-8,0.05,0.5,2}^2 x equal_nan; oracle = torch.equal / torch.allclose on the dense twins (independent "
        "interpreter), both argument orders. non-trivial = patterns differ structurally and supports overlap partially; "
        "distinct by case hash")
ASSUMPTIONS = ["both tensors are patterns of the same index types (documented precondition)",
               "MultiTensor blocks carry the semiring zero as default (asserted by MultiTensor.allclose)"]
ESSENTIAL_LABELS = ['covers-all', 'partial-overlap', 'disjoint', 'defaults-visible-both', 'expect-equal', 'expect-unequal', 'mode:multi', 'perturb:default']
TOLS = (0.0, 1e-8, 0.05, 0.5, 2.0)      # rtol >= 1 makes the (asymmetric) scaling by |other| decisive next to a zero default
DELTAS = (1e-9, 0.01, 0.3, 1.0, math.inf, math.nan)


def budget(tier):
    return {'examples': 3200 if tier == 'quick' else 80000, 'shrink_calls': 300}


def gather(E, spec):
    sizes = spec['paxes']
    out = []
    for idx in itertools.product(*[range(s) for s in sizes]):
        out.append(E[tuple(gp.pat_index(P, idx, sizes) for P in spec['vaxes'])])
    return out


@st.composite
def cases(draw, tier):
    mode = draw(st.sampled_from(['constructed', 'constructed', 'constructed', 'random', 'shape', 'multi']))
    nd = draw(st.sampled_from([1, 2, 2, 3]))
    tys = [draw(gp.types(max_numel=12 if nd < 3 else 5, depth=2)) for _ in range(nd)]
    if nd >= 2 and draw(st.integers(0, 3)) == 0:
        tys = [tys[0]] * nd          # square: a tensor can be compared with its own transpose (shares its axes)
    tols = [[draw(st.sampled_from(TOLS)), draw(st.sampled_from(TOLS)), draw(st.booleans())] for _ in range(3)]
    vals = (0.0, 1.0, -1.0, 2.0, 0.5, 3.0, 1.05, 1.0 + 1e-9)
    if mode == 'multi':
        sr = draw(st.sampled_from(['real', 'log', 'bool']))
        zero = {'real': 0.0, 'log': -math.inf, 'bool': False}[sr]
        keys = ['A', 'B', 'C'][:draw(st.integers(1, 3))]
        shapes = {k: [draw(st.sampled_from([2, 3]))] * draw(st.integers(0, 2)) for k in keys}
        def blk(k):
            t = [['atom', n] for n in shapes[k]]
            if sr == 'bool':
                s = draw(gp.tensor_specs(t, dtype='bool')); s['default'] = False; return s
            v = (zero, zero, 1.0, 0.5, 1e-9, 0.01, -0.01 if sr == 'real' else -5.0, 0.3)
            return draw(gp.tensor_specs(t, values=v, defaults=(zero,)))
        m1 = {k: blk(k) for k in keys if draw(st.integers(0, 3)) > 0}
        m2 = {}
        for k in keys:
            r = draw(st.integers(0, 3))
            if r == 0: continue
            if r == 1 and k in m1: m2[k] = m1[k]        # identical block
            else: m2[k] = blk(k)
        tol = draw(st.sampled_from([0.0, 0.0, 1e-8, 0.05, 0.5]))
        return {'mode': 'multi', 'sr': sr, 'keys': keys, 'shapes': shapes, 'm1': m1, 'm2': m2, 'tol': tol}
    if mode == 'shape':
        tys2 = list(tys)
        if draw(st.booleans()): tys2 = tys2 + [['atom', 2]]
        else: tys2[draw(st.integers(0, nd - 1))] = ['atom', 5]
        return {'mode': 'shape', 'p1': draw(gp.tensor_specs(tys, values=vals)), 'p2': draw(gp.tensor_specs(tys2, values=vals)), 'tols': tols}
    square = nd >= 2 and all(T == tys[0] for T in tys)
    if mode == 'random':
        vs = vals + ((math.nan, math.inf) if draw(st.booleans()) else ())
        dfl = gp.DEFAULTS_FLOAT + ((math.nan,) if draw(st.integers(0, 4)) == 0 else ())
        return {'mode': 'random', 'p1': draw(gp.tensor_specs(tys, values=vs, defaults=dfl)), 'p2': draw(gp.tensor_specs(tys, values=vs, defaults=dfl)), 'tols': tols, 'square': square}
    # constructed
    p1 = draw(gp.tensor_specs(tys, values=(0.0,), defaults=(0.0,), p_bcast=0.0))
    p2 = draw(gp.tensor_specs(tys, values=(0.0,), defaults=(0.0,), p_bcast=0.0))
    d = draw(st.sampled_from((0.0, 0.0, 1.0, -1.0, 7.0, -math.inf, math.inf)))
    shape = gp.virtual_shape(p1)
    M1, M2 = gp.support_mask(p1), gp.support_mask(p2)
    S = M1 & M2
    E = np.full(shape, d, dtype=np.float64)
    for pos in zip(*np.nonzero(S)):
        E[pos] = draw(st.sampled_from(vals + (d,)))
    E2 = E.copy()
    d2 = d
    kind = draw(st.sampled_from(['none', 'none', 'overlap', 'one-sided', 'default', 'default-covered']))
    delta = draw(st.sampled_from(DELTAS))
    pick = draw(st.integers(0, 10 ** 6))
    if kind == 'overlap' and S.any():
        pos = list(zip(*np.nonzero(S))); p = pos[pick % len(pos)]
        E2[p] = E2[p] + delta if math.isfinite(E2[p]) else 0.0
    elif kind == 'one-sided' and (M2 & ~M1).any():
        pos = list(zip(*np.nonzero(M2 & ~M1))); p = pos[pick % len(pos)]
        E2[p] = E2[p] + delta if math.isfinite(E2[p]) else 0.0
    elif kind in ('default', 'default-covered'):
        d2 = d + delta if math.isfinite(d) else 0.0
    p1 = dict(p1, phys=[float(v) for v in gather(E, p1)], default=d)
    p2 = dict(p2, phys=[float(v) for v in gather(E2, p2)], default=d2)
    return {'mode': 'constructed', 'perturb': kind, 'p1': p1, 'p2': p2, 'tols': tols, 'square': square}


def strategy(tier):
    return cases(tier)


def check(case, ctx):
    import torch
    from fggs.indices import PatternedTensor
    ctx.label('mode:' + case['mode'])
    if case['mode'] == 'multi':
        return check_multi(case, ctx)
    try:
        t, u = gp.build_pt(case['p1']), gp.build_pt(case['p2'])
    except Exception as e:
        ctx.violation('construct-failed', f'{type(e).__name__}: {e}'); return
    dt, du = gp.dense_torch(case['p1']), gp.dense_torch(case['p2'])
    for pt, d, nm in ((t, dt, 'p1'), (u, du, 'p2')):
        ld = ctx.call('to_dense', pt.to_dense)
        if not ctx.require(tuple(ld.shape) == tuple(d.shape) and bool(((ld == d) | (ld.isnan() & d.isnan())).all()), 'to_dense-differs', f'{nm}'):
            return
    if case['mode'] != 'shape':
        M1, M2 = gp.support_mask(case['p1']), gp.support_mask(case['p2'])
        both_unbacked = bool((~M1 & ~M2).any())
        ctx.label('covers-all' if M1.all() or M2.all() else None,
                  'partial-overlap' if (M1 & M2).any() and (M1 ^ M2).any() else None,
                  'disjoint' if not (M1 & M2).any() else None,
                  'defaults-visible-both' if both_unbacked else None,
                  'perturb:' + case['perturb'] if 'perturb' in case else None)
        ctx.nontrivial = repr(case['p1']['vaxes']) != repr(case['p2']['vaxes']) and bool((M1 & M2).any()) and bool((M1 ^ M2).any())
    want = bool(torch.equal(dt, du))
    ctx.label('expect-equal' if want else 'expect-unequal')
    for a, b, da, db, nm in ((t, u, dt, du, 't.equal(u)'), (u, t, du, dt, 'u.equal(t)')):
        got = ctx.call('equal', a.equal, b)
        ctx.require(isinstance(got, bool) or got in (True, False), 'equal-not-bool', f'{nm} returned {got!r}')
        ctx.require(bool(got) == want, 'equal-wrong', f'{nm} = {got}, torch.equal of the dense tensors = {want}; dense {da.tolist()} vs {db.tolist()}', order=nm)
    for rtol, atol, en in case['tols']:
        for a, b, da, db, nm in ((t, u, dt, du, 't.allclose(u)'), (u, t, du, dt, 'u.allclose(t)')):
            if tuple(da.shape) != tuple(db.shape):
                w = False
            else:
                w = bool(torch.allclose(da, db, rtol=rtol, atol=atol, equal_nan=en))
            got = ctx.call('allclose', a.allclose, b, rtol=rtol, atol=atol, equal_nan=en)
            ctx.require(bool(got) == w, 'allclose-wrong', f'{nm}(rtol={rtol},atol={atol},equal_nan={en}) = {got}, torch.allclose = {w}; dense {da.tolist()} vs {db.tolist()}', order=nm)
            ctx.label('allclose-true' if w else 'allclose-false')
    # representation insensitivity / reflexivity
    nanfree = not bool(dt.isnan().any())
    variants = [('clone', lambda: t.clone()), ('densified', lambda: PatternedTensor(t.to_dense(), default=0.0)),
                ('same-object', lambda: t), ('freshen', lambda: t.freshen()), ('detach', lambda: t.detach())]
    if dt.ndim >= 2:
        variants.append(('TT', lambda: t.T.T))
    for nm, mk in variants:
        v = ctx.call(nm, mk)
        r1 = ctx.call('equal', t.equal, v); r2 = ctx.call('equal', v.equal, t)
        if nanfree:
            ctx.require(bool(r1) and bool(r2), 'representation-sensitive', f't.equal({nm} of t) = {r1}/{r2} for a NaN-free tensor {dt.tolist()}', variant=nm)
        else:
            ctx.require(not r1 and not r2, 'equal-wrong', f'tensor with NaN reported equal to its {nm}', variant=nm)
        r3 = ctx.call('allclose', t.allclose, v, rtol=0.0, atol=0.0, equal_nan=True)
        ctx.require(bool(r3), 'allclose-wrong', f't.allclose({nm} of t, 0, 0, equal_nan=True) is False', variant=nm)
    # a tensor against a permutation of itself: the two operands share physical axes in different positions
    if dt.ndim >= 2 and len(set(dt.shape)) == 1 and case.get('square'):
        for nm, mk, dd in (('T', lambda: t.T, dt.permute(tuple(reversed(range(dt.ndim))))),
                           ('transpose(0,1)', lambda: t.transpose(0, 1), dt.transpose(0, 1))):
            v = ctx.call(nm, mk)
            w = bool(torch.equal(dt, dd))
            r1 = ctx.call('equal', t.equal, v); r2 = ctx.call('equal', v.equal, t)
            ctx.require(bool(r1) == w and bool(r2) == w, 'equal-wrong', f't.equal(t.{nm}) = {r1}/{r2}, dense says {w}: {dt.tolist()}', variant=nm)
            w = bool(torch.allclose(dt, dd, rtol=0.05, atol=0.05))
            r3 = ctx.call('allclose', t.allclose, v, rtol=0.05, atol=0.05)
            ctx.require(bool(r3) == w, 'allclose-wrong', f't.allclose(t.{nm}, .05, .05) = {r3}, dense says {w}: {dt.tolist()}', variant=nm)
        ctx.label('self-vs-transpose')
    # equal_default / allclose_default
    w = bool((dt == t.default).all()) if not (isinstance(t.default, float) and math.isnan(t.default)) else False
    ctx.require(bool(ctx.call('equal_default', t.equal_default)) == w, 'equal_default-wrong', f'dense {dt.tolist()} default {t.default}')
    for rtol, atol, en in case['tols'][:1]:
        w = bool(torch.allclose(dt, torch.full_like(dt, t.default), rtol=rtol, atol=atol, equal_nan=True))
        ctx.require(bool(ctx.call('allclose_default', t.allclose_default, rtol=rtol, atol=atol)) == w, 'allclose_default-wrong',
                    f'dense {dt.tolist()} default {t.default} rtol={rtol} atol={atol}')


def check_multi(case, ctx):
    import torch
    from fggs.multi import MultiTensor
    from .. import gen_fgg
    sr = gen_fgg.make_semiring(case['sr'], torch.float64 if case['sr'] != 'bool' else None)
    zero = {'real': 0.0, 'log': -math.inf, 'bool': False}[case['sr']]
    shapes = {k: torch.Size(case['shapes'][k]) for k in case['keys']}
    m1, m2 = MultiTensor(shapes, sr), MultiTensor(shapes, sr)
    try:
        for k, s in case['m1'].items(): m1[k] = gp.build_pt(s)
        for k, s in case['m2'].items(): m2[k] = gp.build_pt(s)
    except Exception as e:
        ctx.violation('construct-failed', f'{type(e).__name__}: {e}'); return
    tol = case['tol'] if case['sr'] != 'bool' else 0
    def dense(m, specs, k):
        if k in specs: return gp.dense_torch(specs[k])
        return torch.full(tuple(case['shapes'][k]), zero, dtype=torch.bool if case['sr'] == 'bool' else torch.float64)
    want = True
    for k in case['keys']:
        a, b = dense(m1, case['m1'], k), dense(m2, case['m2'], k)
        if case['sr'] == 'bool' or tol == 0:
            ok = bool(torch.equal(a, b))
        else:
            ok = bool(torch.allclose(a, b, rtol=0.0, atol=tol))
        want = want and ok
    for x, y, nm in ((m1, m2, 'm1.allclose(m2)'), (m2, m1, 'm2.allclose(m1)')):
        got = ctx.call('MultiTensor.allclose', x.allclose, y, tol)
        ctx.require(bool(got) == want, 'multi-allclose-wrong', f'{nm}(tol={tol}) = {got}, dense comparison with absent blocks as zero = {want}', order=nm)
    absent = any((k in case['m1']) != (k in case['m2']) for k in case['keys'])
    ctx.label('absent-one-side' if absent else None, 'multi-true' if want else 'multi-false', 'tol=0' if tol == 0 else 'tol>0')
    ctx.nontrivial = absent


def route(case, v):
    return None


def selfcheck():
    gp.selfcheck()
