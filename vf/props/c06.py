"""C06  Patterned tensors behave exactly like the dense tensors they denote."""
from __future__ import annotations
import itertools, math, warnings
import numpy as np
from hypothesis import strategies as st
from .. import gen_pattern as gp

ID = 'C06'
RULE = ("2-3 float tensors + 1 bool tensor + 1 lower-rank float tensor drawn as typed patterns over common index types "
        "(1-3 dims, numel<=12 per dim (24 thorough), products/sums/shared axes/stride-0 views, defaults from "
        "{0,1,-1,7,-inf,inf}), then a program of 1-4 operations from the statement's list applied to a pool of (patterned, "
        "dense twin) pairs with results re-entering the pool; oracle = the corresponding torch operation on the dense twins "
        "(twins of the inputs come from an independent interpreter of the axis language), compared after every step with "
        "equal_nan=True, rtol 1e-12 (1e-6 for float32); reshape/view may raise RuntimeError except for the mandatory class (merge adjacent, "
        "insert/remove size-1, flatten, -1); representation invariant checked on every PatternedTensor constructed inside "
        "library calls. non-trivial = some operand has a non-dense pattern and the dense result is not constant; distinct by case hash")
ASSUMPTIONS = ["the sign of a zero is not part of the denotation (torch.equal/allclose semantics): a register carries the library's own dense value once verified equal",
               "integer tensors (results of to(int64)) take part in every operation except true division",
               "operands of one program share index types per dimension (the module's documented precondition)",
               "in-place operations are applied to clones that do not alias a stride-0 view (torch itself rejects in-place writes to expanded tensors)",
               "log_softmax inputs are finite or -inf; positions where torch's own result is NaN are exempt",
               "stack operands are first brought to a common default with default_to (stack asserts equal defaults)",
               "operations not named in the statement (norm, repeat) are not generated"]
ESSENTIAL_LABELS = ['structured', 'shared-axis', 'sum-axis', 'product-axis', 'bcast-view', 'default-nonzero', 'op:reshape_must', 'op:where', 'op:div', 'op:log_softmax', 'op:project']

FLOAT_BIN = ['add', 'sub', 'mul', 'div', 'logaddexp', 'maximum', 'lt', 'le', 'gt', 'ge', 'eq']
SCALAR_BIN = ['add_s', 'sub_s', 'mul_s', 'div_s', 'lt_s', 'le_s', 'gt_s', 'ge_s', 'eq_s', 'imul_s', 'itruediv_s']
INPLACE_T = ['imul_t', 'itruediv_t']
DEFAULTS = gp.DEFAULTS_FLOAT + (2.5, -0.5, math.nan)      # fractional (narrowing conversions) and NaN defaults
UNARY = ['abs', 'exp', 'expm1', 'log', 'clamp_min', 'clamp_max', 'neg_', 'log_', 'log1p_', 'relu_', 'abs_', 'nan_to_num_']
BOOL_OPS = ['logical_and', 'logical_or', 'logical_not', 'any']
STRUCT = ['where', 'where_derived', 'log_softmax', 'getitem', 'iter', 'tolist', 'transpose', 't', 'T', 'permute', 'flatten', 'unsqueeze',
          'expand', 'expand_as', 'stack', 'clone', 'detach', 'copy_', 'to', 'default_to', 'project', 'dim_to_dense',
          'freshen', 'reshape', 'view', 'reshape_must', 'equal_self']
ALL_OPS = FLOAT_BIN + SCALAR_BIN + INPLACE_T + UNARY + BOOL_OPS + STRUCT + ['where_derived', 'where_derived', 'reshape_must', 'project', 'project', 'log_softmax', 'div', 'div', 'mul', 'sub', 'copy_', 'maximum']
SCALARS = (0.0, 1.0, -1.0, 2.0, 0.5, -3.0, math.inf, -math.inf)


def budget(tier):
    return {'examples': 3200 if tier == 'quick' else 64000, 'shrink_calls': 300}


@st.composite
def cases(draw, tier):
    nd = draw(st.sampled_from([1, 2, 2, 3]))
    mx = 12 if tier == 'quick' else 24
    tys = [draw(gp.types(max_numel=mx if nd < 3 else 6, depth=2)) for _ in range(nd)]
    if nd >= 2 and draw(st.integers(0, 3)) == 0:
        tys = [tys[0]] * nd      # all dimensions of one type: square tensors, diagonals, well-typed transposes
    nfloat = draw(st.integers(2, 3))
    vals = gp.VALUES_FLOAT + ((-math.inf, math.inf) if draw(st.booleans()) else ())
    floats = [draw(gp.tensor_specs(tys, values=vals, defaults=DEFAULTS if draw(st.integers(0, 3)) else (1.0, 0.0, -math.inf)))
              for _ in range(nfloat)]        # a quarter of the tensors have the identity of mul/div, add/sub or max as default
    low = draw(gp.tensor_specs(tys[draw(st.integers(1, nd)):] if nd > 1 else tys, values=vals))
    boolean = draw(gp.tensor_specs(tys, dtype='bool'))
    proj = draw(gp.tensor_specs(tys, values=(0.0,), defaults=(0.0,), p_bcast=0.0))
    nsteps = draw(st.integers(1, 4))
    steps = []
    scenario = draw(st.integers(0, 11))
    if scenario in (2, 4):
        # NaN-default scenario: one sparse operand has default NaN, the other any default, in either order
        # (torch propagates NaN from either operand; Python's max/min/comparisons do not)
        op0 = draw(st.sampled_from(['maximum', 'maximum', 'maximum', 'maximum', 'add', 'sub', 'mul', 'div', 'lt', 'ge', 'eq']))
        floats[0] = draw(gp.tensor_specs(tys, values=vals, defaults=(math.nan,), p_dense=0.1, p_reuse=0.6, p_bcast=0.0))
        dfl1 = (7.0, 0.0, math.inf, -1.0, -math.inf, math.nan)
        if draw(st.booleans()):
            floats[1] = draw(gp.tensor_specs(tys, values=vals, defaults=dfl1, p_dense=0.3))
        else:   # same pattern, other values and default: every element outside the pattern is backed by the defaults only
            floats[1] = dict(floats[0], phys=[draw(st.sampled_from(vals)) for _ in floats[0]['phys']], default=draw(st.sampled_from(dfl1)))
        swap = draw(st.booleans())
        steps.append({'op': op0, 'a': 1 if swap else 0, 'b': 0 if swap else 1, 'c': 0, 'n1': 0, 'n2': 0, 'n3': 1, 'x': 1.0})
    elif scenario == 3:
        # narrowing-conversion scenario: a default that the target dtype cannot represent, then an operation that
        # computes on the default (the conversion alone is checked too)
        floats[0] = draw(gp.tensor_specs(tys, values=gp.VALUES_FLOAT, defaults=(2.5, -0.5, 7.0, 1.5), p_dense=0.1, p_reuse=0.6, p_bcast=0.0))
        steps.append({'op': 'to', 'a': 0, 'b': 0, 'c': 0, 'n1': 3, 'n2': 0, 'n3': 0, 'x': 0.0})
        steps.append({'op': draw(st.sampled_from(['mul_s', 'add_s', 'sub_s', 'eq_s', 'lt_s', 'ge_s'])), 'a': -1, 'b': 0, 'c': 0,
                      'n1': 0, 'n2': 0, 'n3': 0, 'x': draw(st.sampled_from([2.0, 1.0, 0.0, -1.0, 3.0]))})
    elif scenario == 6:
        # absorbing-default scenario: a sparse operand with default 0 times an operand that stores inf / nan
        # outside the sparse operand's pattern (0 * inf = nan must survive any shortcut)
        floats[0] = draw(gp.tensor_specs(tys, values=vals, defaults=(0.0,), p_dense=0.1, p_reuse=0.6, p_bcast=0.0))
        floats[1] = draw(gp.tensor_specs(tys, values=(math.inf, -math.inf, math.nan, 1.0, 0.0, 2.0), defaults=(0.0, 1.0, math.inf, math.nan), p_dense=0.6))
        swap = draw(st.booleans())
        steps.append({'op': draw(st.sampled_from(['mul', 'mul', 'div', 'imul_t'])), 'a': 1 if swap else 0, 'b': 0 if swap else 1, 'c': 0, 'n1': 0, 'n2': 0, 'n3': 1, 'x': 1.0})
    elif scenario == 5:
        # where on a tensor that carries one PhysicalAxis in several dimensions (diagonal) under a dense or broadcast condition
        floats[0] = draw(gp.tensor_specs(tys, values=vals, p_dense=0.0, p_reuse=0.8, p_bcast=0.0))
        boolean = draw(gp.tensor_specs(tys, dtype='bool', force_dense=draw(st.booleans()), p_bcast=0.5))
        steps.append({'op': 'where', 'a': draw(st.sampled_from([0, 0, 1])), 'b': draw(st.sampled_from([1, 1, 0])), 'c': 0, 'n1': 0, 'n2': 0, 'n3': 0, 'x': 0.0})
    elif scenario <= 1:
        # identity-default scenario: the sparse operand's default is the identity of the operation, which selects the
        # "densify only the other operand" branches of add/sub/mul/div/maximum/logaddexp
        op0 = draw(st.sampled_from(['div', 'mul', 'sub', 'add', 'maximum', 'logaddexp']))
        ident = {'div': 1.0, 'mul': 1.0, 'sub': 0.0, 'add': 0.0, 'maximum': -math.inf, 'logaddexp': -math.inf}[op0]
        floats[0] = draw(gp.tensor_specs(tys, values=vals, defaults=(ident,), p_dense=0.15, p_bcast=0.0))
        floats[1] = draw(gp.tensor_specs(tys, values=vals, defaults=(7.0, 0.0, 2.0, math.inf, -1.0, -math.inf), p_dense=0.7))
        swap = draw(st.booleans())
        steps.append({'op': op0, 'a': 1 if swap else 0, 'b': 0 if swap else 1, 'c': 0, 'n1': 0, 'n2': 0, 'n3': 1, 'x': 1.0})
    for _ in range(nsteps):
        steps.append({'op': draw(st.sampled_from(ALL_OPS)), 'a': draw(st.integers(0, 7)), 'b': draw(st.integers(0, 7)),
                      'c': draw(st.integers(0, 7)), 'n1': draw(st.integers(0, 11)), 'n2': draw(st.integers(0, 11)),
                      'n3': draw(st.integers(0, 11)), 'x': draw(st.sampled_from(SCALARS))})
    return {'types': tys, 'floats': floats, 'low': low, 'bool': boolean, 'proj': proj, 'steps': steps}


def strategy(tier):
    return cases(tier)


class Skip(Exception):
    pass


def _factorizations(n, maxdims=3):
    out = []
    def rec(rem, acc):
        if len(acc) == maxdims - 1:
            out.append(acc + [rem]); return
        out.append(acc + [rem])
        for d in range(1, rem + 1):
            if rem % d == 0:
                rec(rem // d, acc + [d])
    rec(n, [])
    return out


_INSTR = {'on': False, 'problems': []}


def install_instrumentation():
    """Harness-side wrapper: validate the representation invariant of every PatternedTensor the library constructs
    while a checked operation runs (small tensors only)."""
    from fggs.indices import PatternedTensor
    if getattr(PatternedTensor, '_vf_wrapped', False):
        return
    orig = PatternedTensor.__post_init__
    def post(self):
        orig(self)
        if _INSTR['on']:
            try:
                if self.physical.numel() <= 256:
                    p = gp.invariant_problems(self)
                    if p: _INSTR['problems'].append(p[0])
            except Exception as e:
                _INSTR['problems'].append(f'invariant inspection raised {type(e).__name__}: {e}')
    PatternedTensor.__post_init__ = post
    PatternedTensor._vf_wrapped = True


def same(a, b, exact=False):
    """dense torch tensors equal (NaN positions coincide)."""
    import torch
    if tuple(a.shape) != tuple(b.shape): return False
    if a.dtype == torch.bool or b.dtype == torch.bool:
        return a.dtype == b.dtype and torch.equal(a, b)
    rtol = 1e-6 if torch.float32 in (a.dtype, b.dtype) else 1e-12
    a = a.to(torch.float64); b = b.to(torch.float64)
    if exact:
        return bool(torch.equal(torch.nan_to_num(a, nan=12345.678), torch.nan_to_num(b, nan=12345.678)) and torch.equal(a.isnan(), b.isnan()))
    return bool(torch.allclose(a, b, rtol=rtol, atol=0.0, equal_nan=True))


def check(case, ctx):
    import torch
    from fggs import indices
    from fggs.indices import PatternedTensor, PhysicalAxis, unitAxis
    install_instrumentation()
    pool = []   # entries: [pt, dense, inplace_ok]
    structured = False
    for spec in case['floats'] + [case['low'], case['bool']]:
        try:
            pt = gp.build_pt(spec)
        except Exception as e:
            ctx.violation('construct-failed', f'{type(e).__name__}: {e}'); return
        d = gp.dense_torch(spec)
        try:
            lib_dense = pt.to_dense()
        except Exception as e:
            ctx.violation('exc:to_dense', f'{type(e).__name__}: {e}'); return
        if not ctx.require(same(lib_dense, d, exact=True), 'to_dense-differs', f'to_dense {lib_dense.tolist()} vs interpreter {d.tolist()} for {spec}'):
            return
        p = gp.invariant_problems(pt)
        if not ctx.require(not p, 'invariant', '; '.join(p)): return
        pool.append([pt, d, False])
        if gp.is_structured(spec):
            structured = True
        feats = repr(spec['vaxes'])
        ctx.label('structured' if gp.is_structured(spec) else None, "sum-axis" if "'sum'" in feats else None,
                  'product-axis' if "'prod': [{" in feats else None, 'bcast-view' if spec['bcast'] else None,
                  'default-nonzero' if spec['default'] not in (0.0, False) else None)
        ps = []
        def walk(P):
            if 'p' in P: ps.append(P['p'])
            elif 'prod' in P:
                for x in P['prod']: walk(x)
            else: walk(P['sum'][1])
        for P in spec['vaxes']: walk(P)
        if len(ps) != len(set(ps)): ctx.label('shared-axis')
    nontrivial = False
    for step in case['steps']:
        op = step['op']
        fl = [e for e in pool if e[1].dtype != torch.bool]
        bo = [e for e in pool if e[1].dtype == torch.bool]
        try:
            with warnings.catch_warnings(record=True) as rec:
                warnings.simplefilter('always')
                _INSTR['on'] = True; _INSTR['problems'] = []
                try:
                    res = run_step(ctx, step, fl, bo, case, pool)
                finally:
                    _INSTR['on'] = False
            if op not in ('reshape', 'view') and any('index type mismatch' in str(w.message) for w in rec):
                ctx.violation('type-mismatch-warning', f'{op}: ' + '; '.join(str(w.message) for w in rec)[:300], op=op)
        except Skip as s:
            ctx.skip(f'{op}: {s}')
            continue
        ctx.label('op:' + (op[:-2] if op.endswith('_s') else op))
        if _INSTR['problems']:
            ctx.violation('invariant-inside-library', f'{op}: {_INSTR["problems"][0]}', op=op)
        if res is None:
            continue
        lib, ref, exact = res
        if isinstance(lib, PatternedTensor):
            p = gp.invariant_problems(lib)
            ctx.require(not p, 'invariant', f'{op}: ' + '; '.join(p), op=op)
            try:
                ld = lib.to_dense()
            except Exception as e:
                ctx.violation('exc:to_dense', f'after {op}: {type(e).__name__}: {e}', op=op); continue
            if ctx.require(same(ld, ref, exact), 'wrong-result', f'{op}: got {ld.tolist()} expected {ref.tolist()} (step {step})', op=op):
                # the register carries the library's own dense value (just verified equal to the reference): equality is
                # torch.equal's, which identifies -0.0 and 0.0, and a later division must see the zero the library holds
                pool.append([lib, ld, True])
                if structured and ref.numel() > 1 and not bool((ref == ref.reshape(-1)[0]).all() or ref.isnan().all() if ref.dtype != torch.bool else (ref == ref.reshape(-1)[0]).all()):
                    nontrivial = True
    ctx.nontrivial = nontrivial


def run_step(ctx, step, fl, bo, case, pool):
    """Executes one operation. Returns (lib result, torch reference, exact) or None when fully checked inside."""
    import torch
    from fggs import indices
    from fggs.indices import PatternedTensor, PhysicalAxis, unitAxis
    op = step['op']
    A = fl[step['a'] % len(fl)]
    B = fl[step['b'] % len(fl)]
    C = fl[step['c'] % len(fl)]
    x = step['x']
    n1, n2, n3 = step['n1'], step['n2'], step['n3']

    def ref_or_skip(f):
        try:
            with warnings.catch_warnings():
                warnings.simplefilter('ignore')
                return f()
        except Exception as e:
            raise Skip(f'torch rejects: {type(e).__name__}')

    def lib(what, f, *a, **k):
        return ctx.call(what, f, *a, **k)

    if op in FLOAT_BIN + INPLACE_T + ['where', 'stack', 'copy_'] and len({A[1].dtype, B[1].dtype} | ({C[1].dtype} if op == 'stack' else set())) != 1:
        raise Skip('mixed dtypes (type promotion is outside the statement)')
    if op in ('div', 'div_s', 'itruediv_s', 'itruediv_t') and A[1].dtype == torch.int64:
        raise Skip('true division of an integer tensor changes the dtype (type promotion is outside the statement)')
    if op in FLOAT_BIN:
        tf = {'add': torch.add, 'sub': torch.sub, 'mul': torch.mul, 'div': torch.div, 'logaddexp': torch.logaddexp,
              'maximum': torch.maximum, 'lt': torch.lt, 'le': torch.le, 'gt': torch.gt, 'ge': torch.ge, 'eq': torch.eq}[op]
        ref = ref_or_skip(lambda: tf(A[1], B[1]))
        if op in ('logaddexp',) and bool(ref.isnan().any()):
            raise Skip('logaddexp of opposite infinities')
        return lib(op, getattr(A[0], op), B[0]), ref, op not in ('div', 'logaddexp')
    if op in SCALAR_BIN:
        base = op[:-2]
        if base in ('imul', 'itruediv'):
            t = lib('clone', A[0].clone); d = A[1].clone()
            if base == 'imul':
                def f():
                    nonlocal t
                    t *= x
                    return t
                ref = ref_or_skip(lambda: d.mul_(x))
            else:
                def f():
                    nonlocal t
                    t /= x
                    return t
                ref = ref_or_skip(lambda: d.div_(x))
            r = lib(op, f)
            ctx.require(same(lib('to_dense', A[0].to_dense), A[1], True), 'clone-aliases-source', f'{op} on a clone changed the source', op=op)
            return r, ref, False
        tf = {'add': torch.add, 'sub': torch.sub, 'mul': torch.mul, 'div': torch.div, 'lt': torch.lt, 'le': torch.le,
              'gt': torch.gt, 'ge': torch.ge, 'eq': torch.eq}[base]
        ref = ref_or_skip(lambda: tf(A[1], x))
        return lib(op, getattr(A[0], base), x), ref, base != 'div'
    if op in INPLACE_T:
        t = lib('clone', A[0].clone); d = A[1].clone()
        if op == 'imul_t':
            ref = ref_or_skip(lambda: d.clone().mul_(B[1]))     # the in-place torch operation: it rejects dtype/shape changes
            if tuple(ref.shape) != tuple(d.shape): raise Skip('in-place result shape would change')
            def f():
                nonlocal t
                t *= B[0]
                return t
        else:
            ref = ref_or_skip(lambda: d.clone().div_(B[1]))
            if tuple(ref.shape) != tuple(d.shape): raise Skip('in-place result shape would change')
            def f():
                nonlocal t
                t /= B[0]
                return t
        r = lib(op, f)
        ctx.require(same(lib('to_dense', A[0].to_dense), A[1], True), 'clone-aliases-source', f'{op} on a clone changed the source', op=op)
        return r, ref, False
    if op in UNARY:
        if op == 'clamp_min': return lib(op, A[0].clamp_min, x), ref_or_skip(lambda: A[1].clamp_min(x)), True
        if op == 'clamp_max': return lib(op, A[0].clamp_max, x), ref_or_skip(lambda: A[1].clamp_max(x)), True
        if op.endswith('_'):
            t = lib('clone', A[0].clone); d = A[1].clone()
            # the reference is computed first: what torch itself rejects (e.g. log_ of an integer tensor) is outside the statement
            if op == 'nan_to_num_':
                kw = [dict(nan=0.0), dict(nan=-math.inf, neginf=-math.inf, posinf=math.inf), dict(nan=0.0, posinf=math.inf),
                      dict(nan=1.5, posinf=9.0, neginf=-9.0)][n1 % 4]
                ref = ref_or_skip(lambda: d.nan_to_num_(**kw)); r = lib(op, t.nan_to_num_, **kw)
            else:
                ref = ref_or_skip(lambda: getattr(d, op)()); r = lib(op, getattr(t, op))
            ctx.require(same(lib('to_dense', A[0].to_dense), A[1], True), 'clone-aliases-source', f'{op} on a clone changed the source', op=op)
            ctx.require(r is t, 'inplace-returns-other', f'{op} did not return self', op=op)
            return r, ref, op in ('neg_', 'relu_', 'abs_', 'nan_to_num_')
        ref = ref_or_skip(lambda: getattr(A[1], op)())
        return lib(op, getattr(A[0], op)), ref, op == 'abs'
    if op in BOOL_OPS:
        P = bo[step['a'] % len(bo)]; Q = bo[step['b'] % len(bo)]
        if op == 'logical_not': return lib(op, P[0].logical_not), P[1].logical_not(), True
        if op == 'any':
            if P[1].ndim == 0: raise Skip('0-dim')
            dim = n1 % P[1].ndim; keep = bool(n2 % 2)
            return lib(op, P[0].any, dim, keep), P[1].any(dim, keep), True
        tf = {'logical_and': torch.logical_and, 'logical_or': torch.logical_or}[op]
        ref = ref_or_skip(lambda: tf(P[1], Q[1]))
        return lib(op, getattr(P[0], op), Q[0]), ref, True
    if op == 'where':
        c = bo[step['c'] % len(bo)]
        ref = ref_or_skip(lambda: torch.where(c[1], A[1], B[1]))
        return lib(op, A[0].where, c[0], B[0]), ref, True
    if op == 'where_derived':
        # condition derived from one of the branches (shares its physical axes), as in sum_product.log_softmax
        src = [A, B][n1 % 2]
        cmpop = ['gt', 'le', 'eq'][n2 % 3]
        s_pt, s_d = src[0], src[1]
        tys = case['types']
        if n3 % 2 == 0 and s_d.ndim >= 2 and s_d.ndim == len(tys) and tys[0] == tys[-1] and \
           tuple(s_d.shape) == tuple(gp.numel(T) for T in tys):
            # condition computed from the transposed branch: shares the branch's axes in other positions
            s_pt = lib('T', lambda: s_pt.T) if s_d.ndim == 2 else lib('transpose', s_pt.transpose, 0, s_d.ndim - 1)
            s_d = s_d.transpose(0, s_d.ndim - 1)
            ctx.label('where-transposed-condition')
        c_pt = lib(cmpop, getattr(s_pt, cmpop), x)
        c_d = getattr(s_d, cmpop)(x)
        if n3 % 4 == 1 and c_d.ndim:
            dim = n3 % c_d.ndim
            c_pt = lib('any', c_pt.any, dim, True); c_d = c_d.any(dim, True)
        ref = ref_or_skip(lambda: torch.where(c_d, A[1], B[1]))
        if A[1].dtype != B[1].dtype: raise Skip('mixed dtypes')
        return lib('where', A[0].where, c_pt, B[0]), ref, True
    if op == 'log_softmax':
        if A[1].ndim == 0: raise Skip('0-dim')
        if bool((A[1] == math.inf).any()) or bool(A[1].isnan().any()): raise Skip('input has +inf/nan')
        dim = n1 % A[1].ndim
        if n2 % 2: dim -= A[1].ndim
        ref = ref_or_skip(lambda: A[1].log_softmax(dim))
        r = lib(op, A[0].log_softmax, dim)
        ld = lib('to_dense', r.to_dense)
        ok = ~ref.isnan()
        ctx.require(tuple(ld.shape) == tuple(ref.shape) and bool(torch.allclose(ld[ok], ref[ok], rtol=1e-9, atol=1e-12, equal_nan=False)),
                    'wrong-result', f'log_softmax: got {ld.tolist()} expected {ref.tolist()}', op=op)
        p = gp.invariant_problems(r)
        ctx.require(not p, 'invariant', 'log_softmax: ' + '; '.join(p), op=op)
        return None
    if op == 'getitem':
        if A[1].ndim == 0: raise Skip('0-dim')
        k = 1 + n1 % A[1].ndim
        if any(s == 0 for s in A[1].shape[:k]): raise Skip('empty')
        vis = tuple((n2 + i * (n3 + 1) + (i // 2) * n1) % A[1].shape[i] for i in range(k))
        arg = vis[0] if (k == 1 and n3 % 2) else vis
        return lib(op, A[0].__getitem__, arg), A[1][vis], True
    if op == 'iter':
        if A[1].ndim == 0: raise Skip('0-dim')
        items = lib(op, lambda: list(A[0]))
        if ctx.require(len(items) == A[1].shape[0], 'iter-length', f'{len(items)} items, first dim {A[1].shape[0]}', op=op):
            for i, it in enumerate(items):
                ctx.require(same(lib('to_dense', it.to_dense), A[1][i], True), 'wrong-result', f'iter item {i}: got {it.to_dense().tolist()} expected {A[1][i].tolist()}', op=op)
        return None
    if op == 'tolist':
        r = lib(op, A[0].tolist)
        ref = A[1].tolist()
        ctx.require(same(torch.tensor(r, dtype=torch.float64), torch.tensor(ref, dtype=torch.float64), True) if A[1].numel() else r == ref,
                    'wrong-result', f'tolist: got {r} expected {ref}', op=op)
        return None
    if op == 'transpose':
        if A[1].ndim == 0: raise Skip('0-dim')
        d0, d1 = n1 % A[1].ndim, n2 % A[1].ndim
        return lib(op, A[0].transpose, d0, d1), A[1].transpose(d0, d1), True
    if op == 't':
        if A[1].ndim > 2: raise Skip('>2 dims')
        return lib(op, A[0].t), A[1].t(), True
    if op == 'T':
        return lib(op, lambda: A[0].T), A[1].permute(tuple(reversed(range(A[1].ndim)))), True
    if op == 'permute':
        perms = list(itertools.permutations(range(A[1].ndim)))
        p = perms[n1 % len(perms)]
        return lib(op, A[0].permute, p), A[1].permute(p), True
    if op == 'flatten':
        return lib(op, A[0].flatten), A[1].flatten(), True
    if op == 'unsqueeze':
        dim = n1 % (A[1].ndim + 1)
        if n2 % 2: dim -= A[1].ndim + 1
        return lib(op, A[0].unsqueeze, dim), A[1].unsqueeze(dim), True
    if op == 'expand':
        shape = list(A[1].shape)
        sizes = [[2, 3][n2 % 2]] * (n1 % 2) + [(s if s != 1 else [1, 2, 4][(n3 + i) % 3]) for i, s in enumerate(shape)]
        if n3 % 4 == 0 and shape:
            sizes[-1 - (n1 % len(shape))] = -1
            ctx.label('expand(-1)')
        ref = ref_or_skip(lambda: A[1].expand(*sizes))
        return lib(op, A[0].expand, *sizes), ref, True
    if op == 'expand_as':
        ref = ref_or_skip(lambda: A[1].expand_as(B[1]))
        return lib(op, A[0].expand_as, B[0]), ref, True
    if op == 'stack':
        group = [A, B, C][:1 + n1 % 3]
        if len({tuple(g[1].shape) for g in group}) != 1: raise Skip('shapes differ')
        dflt = [0.0, 1.0, group[0][0].default][n2 % 3]
        if isinstance(dflt, float) and math.isnan(dflt): raise Skip('stack asserts equal defaults: a NaN default cannot be made common')
        ts = [lib('default_to', g[0].default_to, dflt) for g in group]
        dim = n3 % (group[0][1].ndim + 1)
        return lib(op, indices.stack, ts, dim), torch.stack([g[1] for g in group], dim), True
    if op in ('clone', 'detach', 'freshen'):
        r = lib(op, getattr(A[0], op))
        if op == 'clone':
            ctx.require(r.physical.data_ptr() != A[0].physical.data_ptr() or r.physical.numel() == 0, 'clone-shares-storage', 'clone shares storage with its source', op=op)
        return r, A[1], True
    if op == 'copy_':
        dst = lib('clone', A[0].clone)
        lib(op, dst.copy_, B[0])
        ctx.require(same(lib('to_dense', B[0].to_dense), B[1], True), 'copy_-changed-source', 'copy_ changed its source', op=op)
        ctx.require(same(lib('to_dense', A[0].to_dense), A[1], True), 'clone-aliases-source', 'copy_ into a clone changed the clone\'s source', op=op)
        if n1 % 2 == 0 and B[1].dtype != torch.bool:
            # a later in-place operation on the destination must not reach the source of the copy (no shared storage)
            inp = ['neg_', 'abs_', 'relu_'][n2 % 3]
            lib(inp, getattr(dst, inp))
            ctx.require(same(lib('to_dense', B[0].to_dense), B[1], True), 'copy_-shares-storage', f'{inp} on the destination of copy_ changed the source', op=op)
            ctx.label('copy_-then-inplace')
            return dst, getattr(B[1].clone(), inp)(), True
        return dst, B[1], True
    if op == 'to':
        dt = [torch.float32, torch.float64, torch.bool, torch.int64][n1 % 4]
        if dt == torch.int64 and (bool(A[1].isinf().any()) or bool(A[1].isnan().any()) or not math.isfinite(float(A[0].default))):
            raise Skip('non-finite values have no integer counterpart')
        ref = A[1].to(dt)
        return lib(op, A[0].to, dt), ref, True
    if op == 'default_to':
        d = [0.0, 1.0, -math.inf, 5.0][n1 % 4]
        return lib(op, A[0].default_to, d), A[1], True
    if op == 'dim_to_dense':
        if A[1].ndim == 0: raise Skip('0-dim')
        dim = n1 % A[1].ndim
        r = lib(op, A[0].dim_to_dense, dim)
        e = r.vaxes[dim]
        others = {id(k) for j, f in enumerate(r.vaxes) if j != dim for k in f.fv({})}
        ctx.require(e == unitAxis or (isinstance(e, PhysicalAxis) and id(e) not in others), 'dim-not-dense',
                    f'dim_to_dense({dim}) left axis {e} shared or non-physical', op=op)
        return r, A[1], True
    if op == 'project' and n2 % 2 == 1 and A[1].ndim >= 2 and A[1].numel() > 0 and len(case['types']) == A[1].ndim and \
       case['types'][0] == case['types'][-1] and tuple(A[1].shape) == tuple(gp.numel(T) for T in case['types']):
        # the requested pattern is a transposed view of the tensor itself: its axes are the tensor's own PhysicalAxis objects
        # in other roles (project must rename them apart before unifying)
        tgt = lib('transpose', A[0].transpose, 0, A[1].ndim - 1)
        r = lib(op, A[0].project, tgt.paxes, tgt.vaxes)
        pshape = tuple(k.numel() for k in tgt.paxes)
        n = 1
        for x in pshape: n *= x
        # index map of the requested pattern, read off a tensor of codes laid out in that pattern
        codes = PatternedTensor(torch.arange(n, dtype=torch.float64).reshape(pshape), tgt.paxes, tgt.vaxes, -1.0)
        cd = lib('to_dense', codes.to_dense)
        ref = torch.full((n,), float('nan'), dtype=torch.float64)
        Ad = A[1].to(torch.float64) if A[1].dtype != torch.bool else A[1].to(torch.float64)
        for v in itertools.product(*[range(x) for x in cd.shape]):
            c_ = int(cd[v])
            if c_ >= 0: ref[c_] = Ad[v]
        ref = ref.reshape(pshape)
        ctx.label('project-onto-own-axes')
        ctx.require(isinstance(r, torch.Tensor) and tuple(r.shape) == pshape and same(r.to(torch.float64), ref, True), 'wrong-result',
                    f'project onto a transposed view of itself: got {r.tolist() if hasattr(r, "tolist") else r} expected {ref.tolist()}', op=op)
        return None
    if op == 'project':
        spec = case['proj']
        tgt_shape = gp.virtual_shape(spec)
        cands = [e for e in fl if tuple(e[1].shape) == tuple(tgt_shape)]
        if not cands: raise Skip('no tensor of the projection shape')
        A = cands[step['a'] % len(cands)]
        sizes = spec['paxes']
        # the target pattern is taken from a constructed PatternedTensor (as the library's callers do: the
        # constructor normalises size-1 physical axes away)
        tgt = gp.build_pt(spec)
        r = lib(op, A[0].project, tgt.paxes, tgt.vaxes)
        ref = torch.empty(sizes, dtype=A[1].dtype)
        for idx in itertools.product(*[range(s) for s in sizes]):
            ref[idx] = A[1][tuple(gp.pat_index(P, idx, sizes) for P in spec['vaxes'])]
        ref = ref.reshape(tuple(tgt.physical.shape))
        ctx.require(isinstance(r, torch.Tensor) and same(r, ref, True), 'wrong-result', f'project: got {r.tolist() if hasattr(r, "tolist") else r} expected {ref.tolist()}', op=op)
        return None
    if op in ('reshape', 'view'):
        n = A[1].numel()
        if n == 0: raise Skip('empty')
        facts = _factorizations(n)
        target = list(facts[(n1 * 12 + n2) % len(facts)])
        if n3 % 3 == 0 and target:
            target[n1 % len(target)] = -1
        ref = A[1].reshape(target)
        try:
            r = getattr(A[0], op)(*target) if n2 % 2 else getattr(A[0], op)(target)
        except RuntimeError:
            ctx.label(op + ':RuntimeError')
            return None
        except Exception as e:
            ctx.violation(f'exc:{op}:{type(e).__name__}', f'{op}({target}) of shape {tuple(A[1].shape)}: {type(e).__name__}: {e}', op=op)
            return None
        ctx.label(op + ':ok')
        return r, ref, True
    if op == 'reshape_must':
        shape = list(A[1].shape)
        kind = n1 % 5
        if kind == 0 and len(shape) >= 2:      # merge adjacent dims i..j
            i = n2 % (len(shape) - 1); j = i + 1 + n3 % (len(shape) - i - 1) if len(shape) - i - 1 > 0 else i + 1
            j = min(j, len(shape) - 1)
            m = 1
            for s in shape[i:j + 1]: m *= s
            target = shape[:i] + [m] + shape[j + 1:]
        elif kind == 1:                         # insert a size-1 dim
            i = n2 % (len(shape) + 1); target = shape[:i] + [1] + shape[i:]
        elif kind == 2 and 1 in shape:          # remove a size-1 dim
            i = shape.index(1); target = shape[:i] + shape[i + 1:]
        elif kind == 3:                         # flatten with -1
            target = [-1]
        elif kind == 4 and len(shape) >= 2 and all(s > 0 for s in shape):   # merge with -1 inference
            target = [-1] + shape[2:]
        else:
            raise Skip('no mandatory reshape of this shape')
        if A[1].numel() == 0: raise Skip('empty')
        ref = A[1].reshape(target)
        return lib('reshape(mandatory)', A[0].reshape, *target), ref, True
    if op == 'equal_self':
        r = lib('equal', A[0].equal, lib('clone', A[0].clone))
        if not bool(A[1].isnan().any()):
            ctx.require(r is True or r == True, 'clone-not-equal', 'a NaN-free tensor is not equal to its clone', op=op)
        return None
    raise AssertionError(op)


def route(case, v):
    return None


def selfcheck():
    gp.selfcheck()
