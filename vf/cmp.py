"""Comparison of library results with float64 references, with stated tolerances."""
from __future__ import annotations
import numpy as np

INF = float('inf')


def to_numpy(t):
    import torch
    if hasattr(t, 'to_dense'):
        t = t.to_dense()
    if isinstance(t, torch.Tensor):
        t = t.detach()
        if t.dtype == torch.bool:
            return t.numpy().astype(bool)
        return t.to(torch.float64).numpy()
    return np.asarray(t)


def rtol_for(dtype_name):
    return 1e-4 if dtype_name == 'float32' else 1e-9


def compare(lib, ref, kind, dtype_name='float64', rtol=None, what=''):
    """Returns None if lib matches ref, else a message.
    kind: 'real' | 'log' | 'viterbi' | 'bool'.  ref is in the same domain as lib (log domain for log/viterbi).
    Infinities and the semiring zero must match exactly; finite values to |a-b| <= rtol*(1+|b|)."""
    try:
        a = to_numpy(lib)
    except Exception as e:   # the library's own densification failed: the result object is broken
        return f'{what}result cannot be densified: {type(e).__name__}: {e}'[:400]
    b = np.asarray(ref)
    if a.shape != b.shape:
        return f'{what}shape {a.shape} != expected {b.shape}'
    if kind == 'bool':
        if a.dtype != np.bool_:
            return f'{what}dtype {a.dtype} is not bool'
        return None if np.array_equal(a, b) else f'{what}got {a.tolist()} expected {b.tolist()}'
    if np.isnan(a).any():
        return f'{what}NaN in result {a.tolist()} (expected {b.tolist()})'
    rt = rtol if rtol is not None else rtol_for(dtype_name)
    infa, infb = np.isinf(a), np.isinf(b)
    if not np.array_equal(infa, infb) or not np.array_equal(np.sign(a[infa]), np.sign(b[infb])):
        return f'{what}infinite entries differ: got {a.tolist()} expected {b.tolist()}'
    if kind == 'real':
        if not np.array_equal(a == 0, b == 0):
            # an exact zero must be an exact zero (and vice versa, up to underflow of tiny values)
            bad = (a == 0) != (b == 0)
            if np.any(bad & ~((np.abs(a) < 1e-300) & (np.abs(b) < 1e-300))):
                if dtype_name == 'float32' and not np.any(bad & (np.maximum(np.abs(a), np.abs(b)) > 1e-30)):
                    pass
                else:
                    return f'{what}zero pattern differs: got {a.tolist()} expected {b.tolist()}'
    fin = ~infb
    if np.any(np.abs(a[fin] - b[fin]) > rt * (1 + np.abs(b[fin]))):
        return f'{what}got {a.tolist()} expected {b.tolist()} (rtol {rt})'
    return None
