"""G1: grammar specs (plain data), Hypothesis strategies for them, and build(spec) -> fggs.FGG.

A spec is JSON-serialisable:
  {'node_labels': {name: size}, 'terminals': {name: {'type': [nl...], 'weights': nested list (real domain)}},
   'nonterminals': {name: [nl...]}, 'start': name,
   'rules': [{'lhs': name, 'nodes': [nl...], 'ext': [node positions], 'edges': [{'label': name, 'att': [positions]}]}]}
"""
from __future__ import annotations
import itertools, math
from hypothesis import strategies as st

INF = float('inf')

# ------------------------------------------------------------------ helpers on specs

def shape_of(spec, type_):
    return [spec['node_labels'][nl] for nl in type_]


def nested(shape, flat):
    """flat list -> nested list of the given shape."""
    if not shape:
        return flat[0]
    n = shape[0]
    step = len(flat) // n if n else 0
    return [nested(shape[1:], flat[i * step:(i + 1) * step]) for i in range(n)]


def flatten(w):
    if isinstance(w, list):
        out = []
        for x in w: out.extend(flatten(x))
        return out
    return [w]


def rules_of(spec, nt):
    return [r for r in spec['rules'] if r['lhs'] == nt]


def nt_graph(spec):
    g = {x: [] for x in spec['nonterminals']}
    for r in spec['rules']:
        for e in r['edges']:
            if e['label'] in spec['nonterminals'] and e['label'] not in g[r['lhs']]:
                g[r['lhs']].append(e['label'])
    return g


def reachable_nts(spec):
    g = nt_graph(spec)
    seen = {spec['start']}
    stack = [spec['start']]
    while stack:
        x = stack.pop()
        for y in g[x]:
            if y not in seen:
                seen.add(y); stack.append(y)
    return seen


def sccs(spec):
    """Own SCC (reachability closure) of the nonterminal dependency graph -> list of frozensets."""
    g = nt_graph(spec)
    names = list(g)
    reach = {x: {x} for x in names}
    changed = True
    while changed:
        changed = False
        for x in names:
            new = set(reach[x])
            for y in list(reach[x]):
                for z in g[y]:
                    new.add(z)
            if new != reach[x]:
                reach[x] = new; changed = True
    comps = []
    done = set()
    for x in names:
        if x in done: continue
        c = frozenset(y for y in names if y in reach[x] and x in reach[y])
        comps.append(c); done |= c
    return comps, g


def is_recursive(spec):
    comps, g = sccs(spec)
    return any(len(c) > 1 or next(iter(c)) in g[next(iter(c))] for c in comps)


def cyclic_nts(spec):
    comps, g = sccs(spec)
    out = set()
    for c in comps:
        if len(c) > 1 or next(iter(c)) in g[next(iter(c))]:
            out |= c
    return out


def is_linear(spec):
    """Linearly recursive in the sense of method='linear': every rule has at most one rhs edge labelled
    by a nonterminal of the lhs's own SCC."""
    comps, g = sccs(spec)
    comp_of = {x: c for c in comps for x in c}
    for r in spec['rules']:
        c = comp_of[r['lhs']]
        cyc = len(c) > 1 or r['lhs'] in g[r['lhs']]
        if not cyc: continue
        if sum(1 for e in r['edges'] if e['label'] in c) > 1:
            return False
    return True


def spec_features(spec):
    """Feature labels of a spec (the classes reported in the evidence)."""
    f = set()
    reach = reachable_nts(spec)
    for x in spec['nonterminals']:
        if not rules_of(spec, x): f.add('ruleless-nt')
        if x not in reach: f.add('unreachable-nt')
        if len(rules_of(spec, x)) >= 2: f.add('multi-rule-lhs')
    if len(spec['nonterminals'][spec['start']]) > 0: f.add('start-arity>0')
    if any(s == 1 for s in spec['node_labels'].values()): f.add('size1-domain')
    if any(s == 0 for s in spec['node_labels'].values()): f.add('size0-domain')
    for t in spec['terminals'].values():
        fl = flatten(t['weights'])
        if any(x == 0 for x in fl): f.add('zero-weight')
        if any(x == INF for x in fl): f.add('inf-weight')
        if not t['type']: f.add('nullary-factor')
        if t.get('pattern'): f.add('patterned-weight')
    for r in spec['rules']:
        attached = set()
        for e in r['edges']:
            attached.update(e['att'])
            if len(set(e['att'])) < len(e['att']): f.add('repeated-attachment')
            if e['label'] in spec['terminals'] and not e['att']: f.add('nullary-edge')
        for i in range(len(r['nodes'])):
            if i not in attached:
                f.add('edgeless-external' if i in r['ext'] else 'disconnected-internal')
        if not r['edges']: f.add('empty-rhs')
        if r['edges'] and all(a in r['ext'] for e in r['edges'] for a in e['att']): f.add('all-attached-external')
        if len(r['edges']) >= 3: f.add('rule>=3edges')
        if r['ext'] and r['ext'] != sorted(r['ext']): f.add('ext-out-of-order')
        if r['ext'] and r['ext'][0] != 0: f.add('ext-not-first')
        if sum(1 for e in r['edges'] if e['label'] in spec['nonterminals']) >= 2: f.add('nonlinear-rule')
    if is_recursive(spec):
        f.add('recursive')
        comps, g = sccs(spec)
        if any(len(c) > 1 for c in comps): f.add('mutual-recursion')
        if any(len(c) == 1 and next(iter(c)) in g[next(iter(c))] for c in comps): f.add('self-loop')
        f.add('linear-recursion' if is_linear(spec) else 'nonlinear-recursion')
    depth = {}
    return f


# ------------------------------------------------------------------ strategies

def _wchoice(draw, pairs):
    items = [x for x, w in pairs for _ in range(w)]
    return draw(st.sampled_from(items))


@st.composite
def specs(draw, recursive=False, weights=(0.0, 0.25, 0.5, 1.0, 2.0), max_nts=4, max_rules=3, max_edges=4,
          max_dom=3, allow_size0=False, start_arity=(0, 0, 1, 2), p_new_node=0.2, max_extra=2,
          terminal_in_recursive=True, min_dom=1, max_nodes=6, nt_arities=(0, 1, 1, 2)):
    nlabels = draw(st.integers(1, 3))
    dom_choices = [d for d in range(min_dom, max_dom + 1)]
    weighted = [d for d in dom_choices for _ in range(1 if d == 1 else 3)]
    if allow_size0: weighted.append(0)
    node_labels = {f'N{i}': draw(st.sampled_from(weighted)) for i in range(nlabels)}
    nl_names = list(node_labels)
    nnts = draw(st.integers(1, max_nts))
    nts = {}
    for i in range(nnts):
        ar = draw(st.sampled_from(start_arity)) if i == 0 else draw(st.sampled_from(list(nt_arities)))
        nts[f'X{i}' if i else 'S'] = [draw(st.sampled_from(nl_names)) for _ in range(ar)]
    nt_names = list(nts)
    nterms = draw(st.integers(1, 4))
    terms = {}
    for i in range(nterms):
        ar = _wchoice(draw, [(0, 1), (1, 5), (2, 6), (3, 2)])
        terms[f't{i}'] = {'type': [draw(st.sampled_from(nl_names)) for _ in range(ar)]}
    t_names = list(terms)
    rules = []
    for i, x in enumerate(nt_names):
        nrules = _wchoice(draw, [(0, 1), (1, 6), (2, 5), (3, 2)]) if max_rules >= 3 else draw(st.integers(0, max_rules))
        if i == 0 and nrules == 0 and draw(st.integers(0, 3)) > 0:
            nrules = 1
        allowed0 = nt_names if recursive else nt_names[i + 1:]
        for rno in range(nrules):
            # in recursive mode the first rule of a nonterminal is usually a base case (terminals only),
            # so that least fixed points are usually non-zero
            allowed = [] if (recursive and rno == 0 and nrules > 1 and draw(st.integers(0, 9)) < 7) else allowed0
            nodes = list(nts[x])
            ext = list(range(len(nodes)))
            edges = []
            nedges = _wchoice(draw, [(0, 1), (1, 5), (2, 6), (3, 4), (4, 2)][:max_edges + 1])
            has_terminal = False
            for k in range(nedges):
                want_nt = bool(allowed) and draw(st.integers(0, 9)) < (5 if recursive else 4)
                if want_nt:
                    lab = draw(st.sampled_from(allowed)); typ = nts[lab]
                else:
                    lab = draw(st.sampled_from(t_names)); typ = terms[lab]['type']; has_terminal = True
                att = []
                for nl in typ:
                    cands = [j for j, l in enumerate(nodes) if l == nl]
                    if cands and (len(nodes) >= max_nodes or draw(st.floats(0, 1)) >= p_new_node):
                        att.append(draw(st.sampled_from(cands)))
                    else:
                        nodes.append(nl); att.append(len(nodes) - 1)
                edges.append({'label': lab, 'att': att})
            if recursive and terminal_in_recursive and not has_terminal and draw(st.integers(0, 9)) < 9:
                lab = draw(st.sampled_from(t_names)); typ = terms[lab]['type']
                att = []
                for nl in typ:
                    cands = [j for j, l in enumerate(nodes) if l == nl]
                    if cands and (len(nodes) >= max_nodes or draw(st.floats(0, 1)) >= p_new_node):
                        att.append(draw(st.sampled_from(cands)))
                    else:
                        nodes.append(nl); att.append(len(nodes) - 1)
                edges.append({'label': lab, 'att': att})
            if max_extra and draw(st.integers(0, 5)) == 0:
                for _ in range(draw(st.integers(1, max_extra))):
                    if len(nodes) < max_nodes + 1:
                        nodes.append(draw(st.sampled_from(nl_names)))
            # scatter node positions (externals anywhere) by a random permutation of node indices
            if len(nodes) > 1 and draw(st.integers(0, 2)) == 0:
                perm = list(draw(st.permutations(list(range(len(nodes))))))   # old -> new
                newnodes = [None] * len(nodes)
                for old, new in enumerate(perm): newnodes[new] = nodes[old]
                nodes = newnodes
                ext = [perm[p] for p in ext]
                edges = [{'label': e['label'], 'att': [perm[a] for a in e['att']]} for e in edges]
            if edges and draw(st.integers(0, 2)) == 0:
                edges = list(draw(st.permutations(edges)))
            rules.append({'lhs': x, 'nodes': nodes, 'ext': ext, 'edges': edges})
    if recursive:
        tmp = {'nonterminals': nts, 'rules': rules, 'start': 'S', 'terminals': terms, 'node_labels': node_labels}
        if not is_recursive(tmp):
            # force a cycle through the start symbol: add an S-labelled edge to one of S's rules (keeping another
            # rule as base case when there is one)
            srules = [r for r in rules if r['lhs'] == 'S']
            if not srules:
                r = {'lhs': 'S', 'nodes': list(nts['S']), 'ext': list(range(len(nts['S']))), 'edges': []}
                rules.append(r); srules = [r]
            if len(srules) == 1 and draw(st.integers(0, 3)) > 0:
                r0 = srules[0]
                r = {'lhs': 'S', 'nodes': list(r0['nodes']), 'ext': list(r0['ext']), 'edges': [dict(e) for e in r0['edges']]}
                rules.append(r)
            else:
                r = srules[-1]
            att = []
            for nl in nts['S']:
                cands = [j for j, l in enumerate(r['nodes']) if l == nl]
                if cands and draw(st.integers(0, 3)) > 0:
                    att.append(draw(st.sampled_from(cands)))
                else:
                    r['nodes'].append(nl); att.append(len(r['nodes']) - 1)
            r['edges'].append({'label': 'S', 'att': att})
            if terminal_in_recursive and not any(e['label'] in terms for e in r['edges']):
                lab = draw(st.sampled_from(t_names)); att = []
                for nl in terms[lab]['type']:
                    cands = [j for j, l in enumerate(r['nodes']) if l == nl]
                    if cands: att.append(draw(st.sampled_from(cands)))
                    else:
                        r['nodes'].append(nl); att.append(len(r['nodes']) - 1)
                r['edges'].append({'label': lab, 'att': att})
    wl = list(weights)
    for t in terms.values():
        shape = [node_labels[nl] for nl in t['type']]
        n = 1
        for s in shape: n *= s
        flat = [draw(st.sampled_from(wl)) for _ in range(n)]
        t['weights'] = nested(shape, flat) if shape else flat[0]
    return {'node_labels': node_labels, 'terminals': terms, 'nonterminals': nts, 'start': 'S', 'rules': rules}


@st.composite
def patterned(draw, spec_strategy, weights=(0.0, 0.25, 0.5, 1.0, 2.0), p_label=0.4, p_term=0.4, p_bcast=0.15, defaults=(0.0,)):
    """A spec some of whose terminal weights are typed patterned tensors.  Every node label gets one index type
    (atom, or a two-summand sum, or 2x2 product) so that all factors over one label are patterns of the same type;
    terminal['pattern'] holds the G2 tensor spec (real domain; default 0 unless `defaults` says otherwise) and terminal['weights'] its dense value."""
    from . import gen_pattern as gp
    spec = draw(spec_strategy)
    ltypes = {}
    for n, size in spec['node_labels'].items():
        T = ['atom', size]
        if size >= 2 and draw(st.floats(0, 1)) < p_label:
            opts = [['sum', [['atom', a], ['atom', size - a]]] for a in range(1, size)]
            if size == 4: opts.append(['prod', [['atom', 2], ['atom', 2]]])
            T = draw(st.sampled_from(opts))
        ltypes[n] = T
    for name, t in spec['terminals'].items():
        if t['type'] and draw(st.floats(0, 1)) < p_term:
            ps = draw(gp.tensor_specs([ltypes[nl] for nl in t['type']], values=tuple(weights), defaults=tuple(defaults), p_bcast=p_bcast))
            t['pattern'] = ps
            t['weights'] = gp.dense_of(ps).tolist()
    spec['label_types'] = ltypes
    return spec


def scale_weights(spec, factor):
    """A copy of spec with all terminal weights multiplied by factor."""
    def sc(w):
        return [sc(x) for x in w] if isinstance(w, list) else w * factor
    out = dict(spec)
    out['terminals'] = {}
    for k, v in spec['terminals'].items():
        nv = dict(v, weights=sc(v['weights']))
        if v.get('pattern'):
            nv['pattern'] = dict(v['pattern'], phys=[x * factor for x in v['pattern']['phys']], default=v['pattern']['default'] * factor)
        out['terminals'][k] = nv
    return out


# ------------------------------------------------------------------ build

def _convert(weights, kind, dtype):
    import torch
    t = torch.tensor(weights, dtype=torch.float64)
    if kind == 'real':
        return t.to(dtype)
    if kind in ('log', 'viterbi'):
        return torch.log(t).to(dtype)
    if kind == 'bool':
        return t > 0
    raise ValueError(kind)


def make_semiring(kind, dtype):
    import fggs
    if kind == 'real': return fggs.RealSemiring(dtype=dtype)
    if kind == 'log': return fggs.LogSemiring(dtype=dtype)
    if kind == 'viterbi': return fggs.ViterbiSemiring(dtype=dtype)
    if kind == 'bool': return fggs.BoolSemiring()
    raise ValueError(kind)


def build_patterned_weight(ps, kind, dtype, info, name, leaf=False):
    """PatternedTensor for a terminal's G2 spec (given in the real domain, default 0) in the semiring's domain."""
    import torch
    from . import gen_pattern as gp
    from fggs.indices import PatternedTensor, PhysicalAxis
    sizes = ps['paxes']
    base = [1 if d in ps['bcast'] else sizes[d] for d in range(len(sizes))]
    t = _convert(ps['phys'], kind, dtype).reshape(base)
    if leaf:
        t.requires_grad_(True)
        info['leaves'][name] = t
    if ps['bcast']:
        t = t.expand(sizes)
    paxes = tuple(PhysicalAxis(n) for n in sizes)
    vaxes = tuple(gp.build_axis(P, paxes) for P in ps['vaxes'])
    # the default is the real-domain default of the spec (usually 0 = the semiring zero) in the semiring's domain
    default = _convert(float(ps.get('default', 0.0)), kind, dtype).item()
    return PatternedTensor(t, paxes, vaxes, default)


def build(spec, kind='real', dtype=None, weight_hook=None, explicit_ids=False, range_domains=False,
          node_prefix='v', edge_prefix='e', leaf_patterns=False, term_edge_prefix=None, start_last=False, ghosts=None, ext_twice=False, empty_id=False, per_rule_ids=False):
    """Build an FGG from a spec through the public API.
    weight_hook(name, tensor) -> tensor|PatternedTensor lets callers wrap leaves / patterns.
    Returns (fgg, info) where info has the Node/Edge objects per rule for later inspection."""
    import torch, fggs
    from fggs.domains import FiniteDomain, RangeDomain
    if dtype is None: dtype = torch.float64
    nls = {n: fggs.NodeLabel(n) for n in spec['node_labels']}
    els = {}
    for n, t in spec['terminals'].items():
        els[n] = fggs.EdgeLabel(n, [nls[x] for x in t['type']], is_terminal=True)
    for n, ty in spec['nonterminals'].items():
        els[n] = fggs.EdgeLabel(n, [nls[x] for x in ty], is_nonterminal=True)
    # start_last: bottom-up construction -- the grammar is created with another nonterminal as provisional start symbol and the
    # real start symbol is assigned after all rules were added (label tables and DFS orders then begin elsewhere)
    others = [r['lhs'] for r in spec['rules'] if r['lhs'] != spec['start']]
    fgg = fggs.FGG(els[others[-1]] if start_last and others else els[spec['start']])
    info = {'rules': [], 'els': els, 'nls': nls, 'leaves': {}}
    for ri, r in enumerate(spec['rules']):
        g = fggs.Graph()
        nodes = []
        def _explicit(i):
            return explicit_ids is True or (explicit_ids == 'mixed' and (ri + i) % 2 == 0)
        # per_rule_ids: ids are unique within one right-hand side only (n0, n1, ... reused by every rule), as in hand-written JSON
        rtag = '' if per_rule_ids else f'{ri}_'
        for j, nl in enumerate(r['nodes']):
            # empty_id: the first explicitly named node of every rule is named '' (a legal, falsy id)
            v = fggs.Node(nls[nl], id=('' if (empty_id and j == 0) else f'{node_prefix}{rtag}{j}') if _explicit(j) else None)
            g.add_node(v); nodes.append(v)
        edges = []
        for k, e in enumerate(r['edges']):
            pre = term_edge_prefix if (term_edge_prefix is not None and e['label'] in spec['terminals']) else edge_prefix
            ed = fggs.Edge(els[e['label']], [nodes[a] for a in e['att']],
                           id=f'{pre}{rtag}{k}' if _explicit(k + 1) else None)
            g.add_edge(ed); edges.append(ed)
        if ext_twice and nodes:
            # an edit history of the external nodes: another tuple first (other arity / order), its type read, then the real one
            g.ext = list(reversed(nodes)) if len(r['ext']) != len(nodes) else nodes[:-1]
            _ = g.type
        g.ext = [nodes[p] for p in r['ext']]
        # ghosts: an edit history -- a nonterminal edge that is added to the right-hand side and removed again, either before
        # or after the rule joins the grammar (the grammar denoted is the one without it)
        ghost = (ghosts or {}).get(ri) or (ghosts or {}).get(str(ri))
        gedge = None
        if ghost:
            gl = els.get(ghost['label']) or fggs.EdgeLabel(ghost['label'], [], is_nonterminal=True)
            att = []
            for nl in gl.node_labels:
                c = [v for v in nodes if v.label == nl]
                if not c: att = None; break
                att.append(c[0])
            if att is not None:
                gedge = fggs.Edge(gl, att)
                g.add_edge(gedge)
                if ghost['when'] == 'before':
                    g.remove_edge(gedge)
        rule = fggs.HRGRule(els[r['lhs']], g)
        fgg.add_rule(rule)
        if gedge is not None and ghost['when'] != 'before':
            rule.rhs.remove_edge(gedge)
        if gedge is not None:
            info.setdefault('ghosts', []).append(ri)
        info['rules'].append({'rule': rule, 'nodes': nodes, 'edges': edges})
    if start_last and others:
        fgg.start = els[spec['start']]
    for n in spec['nonterminals']:
        fgg.add_edge_label(els[n])
    for n, size in spec['node_labels'].items():
        if range_domains is True or (range_domains == 'mixed' and len(n) % 2 == 0):
            dom = RangeDomain(size)
        elif range_domains == 'int-values':
            dom = FiniteDomain(list(range(10, 10 + size)))
        else:
            dom = FiniteDomain([f'{n}_{i}' for i in range(size)])
        fgg.add_domain(nls[n], dom)
    for n, t in spec['terminals'].items():
        if t.get('pattern') and weight_hook is None:
            w = build_patterned_weight(t['pattern'], kind, dtype, info, n, leaf=leaf_patterns)
        else:
            w = _convert(t['weights'], kind, dtype)
        if weight_hook is not None:
            w = weight_hook(n, w)
        doms = [fgg.domains[x] for x in t['type']]
        fgg.add_factor(els[n], fggs.FiniteFactor(doms, w))
    return fgg, info


def inject_dead_rule(draw, spec):
    """Mutates spec: a *dead* rule (sum-product zero because it uses an unproductive nonterminal of the same SCC) in front of
    the productive rules of some nonterminal X:   X -> D ... (first rule of X),   D -> X D (D's only rule)."""
    X = draw(st.sampled_from(spec['rules']))['lhs']
    tx = list(spec['nonterminals'][X])
    spec['nonterminals']['D'] = []
    deadX = {'lhs': X, 'nodes': list(tx), 'ext': list(range(len(tx))), 'edges': [{'label': 'D', 'att': []}]}
    if spec['terminals'] and draw(st.booleans()):
        t = draw(st.sampled_from(sorted(spec['terminals'])))
        nodes = list(tx); att = []
        for nl in spec['terminals'][t]['type']:
            c = [j for j, l in enumerate(nodes) if l == nl]
            if c: att.append(c[0])
            else: nodes.append(nl); att.append(len(nodes) - 1)
        deadX['nodes'] = nodes; deadX['edges'].append({'label': t, 'att': att})
    deadD = {'lhs': 'D', 'nodes': list(tx), 'ext': [], 'edges': [{'label': X, 'att': list(range(len(tx)))}, {'label': 'D', 'att': []}]}
    first = next(i for i, r in enumerate(spec['rules']) if r['lhs'] == X)
    spec['rules'] = spec['rules'][:first] + [deadX] + spec['rules'][first:] + [deadD]
    return spec


def inject_nonlinear_tail(draw, spec):
    """Mutates spec: some self-recursive rule X -> ... X ... gets its X edge duplicated (non-linear recursion) and a fresh
    terminal, used by no other rule, appended *after* all other edges (X X ... tz). Returns False when no rule qualifies."""
    cands = [i for i, r in enumerate(spec['rules']) if any(e['label'] == r['lhs'] for e in r['edges'])]
    if not cands: return False
    r = spec['rules'][draw(st.sampled_from(cands))]
    e = next(e for e in r['edges'] if e['label'] == r['lhs'])
    if sum(1 for x in r['edges'] if x['label'] == r['lhs']) < 2:
        r['edges'].insert(r['edges'].index(e) + 1, {'label': e['label'], 'att': list(e['att'])})
    name = 'tz'
    while name in spec['terminals'] or name in spec['nonterminals']: name += 'z'
    if r['nodes'] and draw(st.booleans()):
        j = draw(st.integers(0, len(r['nodes']) - 1))
        size = spec['node_labels'][r['nodes'][j]]
        spec['terminals'][name] = {'type': [r['nodes'][j]], 'weights': [draw(st.sampled_from((0.25, 0.5, 1.0))) for _ in range(size)]}
        r['edges'].append({'label': name, 'att': [j]})
    else:
        spec['terminals'][name] = {'type': [], 'weights': draw(st.sampled_from((0.25, 0.5)))}
        r['edges'].append({'label': name, 'att': []})
    return True


def inject_diamond(draw, spec):
    """Mutates spec: a new arity-0 start symbol S0 -> D0 E0 F0 with D0 -> S..., E0 -> S..., F0 -> S... (S the old start, its external nodes
    summed out): two sibling nonterminals that share an already finished sub-nonterminal (cross edges in the dependency graph)."""
    old = spec['start']
    ty = list(spec['nonterminals'][old])
    sibs = ('D0', 'E0', 'F0')      # three siblings: whichever is visited first finishes cleanly, the other two see a finished S
    for n in ('S0',) + sibs:
        if n in spec['nonterminals'] or n in spec['terminals']: return False
    spec['nonterminals'].update({n: [] for n in ('S0',) + sibs})
    top = {'lhs': 'S0', 'nodes': [], 'ext': [], 'edges': [{'label': x, 'att': []} for x in sibs]}
    mid = [{'lhs': x, 'nodes': list(ty), 'ext': [], 'edges': [{'label': old, 'att': list(range(len(ty)))}]} for x in sibs]
    pos = draw(st.integers(0, 2))
    new = [top] + mid
    spec['rules'] = (new + spec['rules']) if pos == 0 else (spec['rules'] + new) if pos == 1 else (mid + spec['rules'] + [top])
    spec['start'] = 'S0'
    return True


def inject_expanded_child(draw, spec):
    """Mutates spec: a new start symbol S1(q,p,r) -> Y0(p,q) f0(r) where Y0(p,q) has a rule without edges touching its
    external nodes (its value is a stride-0 expansion) and the parent lists p, q in the other order; nothing is summed out."""
    labs = sorted(spec['node_labels'])
    if not labs: return False
    for n in ('S1', 'Y0', 'f0', 'c0'):
        if n in spec['nonterminals'] or n in spec['terminals']: return False
    A, B, C = draw(st.sampled_from(labs)), draw(st.sampled_from(labs)), draw(st.sampled_from(labs))
    spec['nonterminals']['Y0'] = [A, B]
    spec['nonterminals']['S1'] = [B, A, C]
    spec['terminals']['f0'] = {'type': [C], 'weights': [draw(st.sampled_from((0.25, 0.5, 1.0, 2.0, 3.0))) for _ in range(spec['node_labels'][C])]}
    yedges = []
    if draw(st.booleans()):
        spec['terminals']['c0'] = {'type': [], 'weights': draw(st.sampled_from((0.5, 2.0)))}
        yedges = [{'label': 'c0', 'att': []}]
    new = [{'lhs': 'S1', 'nodes': [B, A, C], 'ext': [0, 1, 2], 'edges': [{'label': 'Y0', 'att': [1, 0]}, {'label': 'f0', 'att': [2]}]},
           {'lhs': 'Y0', 'nodes': [A, B], 'ext': [0, 1], 'edges': yedges}]
    if draw(st.booleans()): new[0]['edges'].reverse()
    spec['rules'] = spec['rules'] + new if draw(st.booleans()) else new + spec['rules']
    spec['start'] = 'S1'
    return True
