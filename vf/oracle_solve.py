"""O3: least solutions of x = A x + b over the four semirings, dense, independent of fggs.
A: n x n numpy array, b: n x m numpy array (semiring domain: real values for 'real', log values for 'log'/'viterbi',
bools for 'bool').  Returns (x, status) with status 'ok' or 'undecidable' (spectral radius within the margin of 1)."""
from __future__ import annotations
import math
from fractions import Fraction
import numpy as np

INF = math.inf
LAST = {'crit': None}   # side channel: entries of the last Real/Log solution that stem from a critical (rho = 1) block


def _sccs(support):
    """SCCs of the support digraph (i -> j iff support[i][j]) in reverse topological order (sinks first)."""
    n = len(support)
    reach = [[i == j or bool(support[i][j]) for j in range(n)] for i in range(n)]
    for k in range(n):
        for i in range(n):
            if reach[i][k]:
                for j in range(n):
                    if reach[k][j]: reach[i][j] = True
    comps, done = [], set()
    for i in range(n):
        if i in done: continue
        c = [j for j in range(n) if reach[i][j] and reach[j][i]]
        comps.append(c); done |= set(c)
    # order: c before d if d reaches c  (sinks first)
    def key(c): return sum(1 for j in range(n) if reach[c[0]][j])
    comps.sort(key=key)
    return comps, reach


def mul0(a, b):
    """a*b with 0*inf = 0 on nonnegative reals (numpy arrays broadcast)."""
    with np.errstate(invalid='ignore', over='ignore'):
        r = a * b
    return np.where((a == 0) | (b == 0), 0.0, r)


def is_dyadic(x, bits=20):
    return float(x) * (1 << bits) == int(float(x) * (1 << bits))


def rho_class(Acc):
    """'lt' | 'eq' | 'gt' | 'undecidable' for an irreducible nonnegative block (finite entries)."""
    n = Acc.shape[0]
    if np.isinf(Acc).any():
        return 'gt'
    if n == 1:
        v = float(Acc[0, 0])
        return 'lt' if v < 1 else ('eq' if v == 1 else 'gt')
    if all(is_dyadic(v) for v in Acc.reshape(-1)):
        rows = [sum(Fraction(float(v)) for v in Acc[i]) for i in range(n)]
        if all(r == 1 for r in rows): return 'eq'
        if all(r <= 1 for r in rows): return 'lt'      # irreducible, some row < 1
        if all(r >= 1 for r in rows): return 'gt'
        cols = [sum(Fraction(float(v)) for v in Acc[:, j]) for j in range(n)]
        if all(c == 1 for c in cols): return 'eq'
        if all(c <= 1 for c in cols): return 'lt'
        if all(c >= 1 for c in cols): return 'gt'
    ev = max(abs(np.linalg.eigvals(Acc.astype(np.float64))))
    if ev < 1 - 1e-6: return 'lt'
    if ev > 1 + 1e-6: return 'gt'
    return 'undecidable'


def solve_real(A, b):
    A = np.asarray(A, dtype=np.float64); b = np.asarray(b, dtype=np.float64)
    n, m = b.shape
    x = np.zeros((n, m))
    crit = np.zeros((n, m), dtype=bool)
    LAST['crit'] = crit
    if n == 0: return x, 'ok'
    comps, reach = _sccs(A != 0)
    done = []
    for c in comps:
        r = b[c, :].copy()
        rcrit = np.zeros((len(c), m), dtype=bool)
        if done:
            r = r + sum(mul0(A[np.ix_(c, [j])], x[[j], :]) for j in done)
            for j in done:
                rcrit |= (A[np.ix_(c, [j])] != 0) & crit[[j], :]
        Acc = A[np.ix_(c, c)]
        cyclic = len(c) > 1 or Acc[0, 0] != 0
        for col in range(m):
            rc = r[:, col]
            if not cyclic:
                x[c, col] = rc
                crit[c, col] = rcrit[:, col]
                continue
            if np.all(rc == 0):
                x[c, col] = 0.0
                continue
            cls = rho_class(Acc)
            if cls == 'undecidable':
                return None, 'undecidable'
            if cls in ('eq', 'gt') or np.isinf(rc).any():
                x[c, col] = INF
                # a block with spectral radius exactly 1 is decided exactly in floating point only when all
                # intermediate arithmetic is exact (0/1 entries); otherwise "infinite" may come out as "huge"
                if (cls == 'eq' and not np.isin(Acc, (0.0, 1.0)).all() and not np.isinf(rc).any()) or rcrit[:, col].any():
                    crit[c, col] = True
            else:
                sol = np.linalg.solve(np.eye(len(c)) - Acc, rc)
                x[c, col] = sol
                crit[c, col] = rcrit[:, col].any()
        done.extend(c)
    return x, 'ok'


def solve_log(A, b):
    with np.errstate(over='ignore'):
        x, st = solve_real(np.exp(np.asarray(A, dtype=np.float64)), np.exp(np.asarray(b, dtype=np.float64)))
    if x is None: return None, st
    with np.errstate(divide='ignore'):
        return np.log(x), st


def solve_viterbi(A, b):
    A = np.asarray(A, dtype=np.float64); b = np.asarray(b, dtype=np.float64)
    n, m = b.shape
    def plus(a, c):
        with np.errstate(invalid='ignore'):
            r = a + c
        return np.where((a == -INF) | (c == -INF), -INF, r)
    x = b.copy()
    for rnd in range(3 * n + 3):
        # x <- max(b, max_j A[i,j] + x[j])
        cand = np.full_like(x, -INF)
        for j in range(n):
            cand = np.maximum(cand, plus(A[:, [j]], x[[j], :]))
        new = np.maximum(np.maximum(b, cand), x)      # Kleene iterates are monotone: infinities are sticky
        if rnd >= n:
            new = np.where(new > x, INF, new)
        if np.array_equal(new, x):
            break
        x = new
    return x, 'ok'


def solve_bool(A, b):
    A = np.asarray(A, dtype=bool); b = np.asarray(b, dtype=bool)
    n, m = b.shape
    x = b.copy()
    for _ in range(n + 1):
        x = x | ((A[:, :, None] & x[None, :, :]).any(axis=1))
    return x, 'ok'


SOLVERS = {'real': solve_real, 'log': solve_log, 'viterbi': solve_viterbi, 'bool': solve_bool}


def mv(kind, A, b):
    """A @ b in the semiring (b: n x m), with 0*inf=0."""
    if kind == 'bool':
        return (np.asarray(A, bool)[:, :, None] & np.asarray(b, bool)[None, :, :]).any(axis=1)
    if kind == 'real':
        return mul0(np.asarray(A, float)[:, :, None], np.asarray(b, float)[None, :, :]).sum(axis=1)
    if kind == 'log':
        with np.errstate(over='ignore', divide='ignore'):
            return np.log(mul0(np.exp(np.asarray(A, float))[:, :, None], np.exp(np.asarray(b, float))[None, :, :]).sum(axis=1))
    A = np.asarray(A, float); b = np.asarray(b, float)
    with np.errstate(invalid='ignore'):
        s = A[:, :, None] + b[None, :, :]
    s = np.where((A[:, :, None] == -INF) | (b[None, :, :] == -INF), -INF, s)
    return s.max(axis=1) if A.shape[1] else np.full((A.shape[0], b.shape[1]), -INF)


def selfcheck():
    x, _ = solve_real([[0.5]], [[1.0]]); assert x[0, 0] == 2.0
    x, _ = solve_real([[1.0]], [[1.0]]); assert x[0, 0] == INF
    x, _ = solve_real([[1.0]], [[0.0]]); assert x[0, 0] == 0.0
    x, _ = solve_real([[0.5, 0.5], [0.5, 0.5]], [[1.0], [0.0]]); assert np.all(x == INF)
    x, _ = solve_real([[0.0, 1.0], [0.0, 2.0]], [[1.0], [0.0]]); assert x[0, 0] == 1.0 and x[1, 0] == 0.0
    x, _ = solve_real([[0.25, 0.25], [0.0, 0.5]], [[0.0], [1.0]]); assert abs(x[1, 0] - 2) < 1e-12 and abs(x[0, 0] - 2 / 3) < 1e-12
    # Kleene cross-check on a contraction
    A = np.array([[0.1, 0.3, 0.0], [0.2, 0.0, 0.4], [0.0, 0.25, 0.25]]); b = np.array([[1.0], [0.0], [2.0]])
    x, _ = solve_real(A, b); k = np.zeros_like(b)
    for _ in range(200): k = A @ k + b
    assert np.allclose(x, k, rtol=1e-12)
    x, _ = solve_viterbi([[0.0, -1.0], [-INF, -2.0]], [[-INF], [3.0]]); assert x[0, 0] == 2.0 and x[1, 0] == 3.0
    x, _ = solve_viterbi([[1.0]], [[0.0]]); assert x[0, 0] == INF
    x, _ = solve_viterbi([[1.0]], [[-INF]]); assert x[0, 0] == -INF
    I_ = -INF
    x, _ = solve_viterbi([[I_, -.5, -.5, I_], [1, I_, I_, I_], [1, I_, I_, I_], [I_, I_, I_, I_]], [[I_], [0], [0], [I_]])
    assert x[0, 0] == INF and x[1, 0] == INF and x[2, 0] == INF and x[3, 0] == -INF
    x, _ = solve_bool([[False, True], [False, False]], [[False], [True]]); assert x[0, 0] and x[1, 0]
