"""Admission of recursive specs for Real/Log checks: deterministic rescaling until the least fixed point is
finite and the Jacobian inf-norm at the fixed point is <= rho_max (so that a-posteriori error bounds hold)."""
from __future__ import annotations
from . import gen_fgg, oracle_fgg as of


def admit(spec, rho_max=0.9, max_halvings=6):
    """Returns (spec', fp, halvings) with fp = TorchEval.least_fixed_point() result (ok=True, rho_inf<=rho_max),
    or (None, reason, halvings)."""
    s = spec
    reason = ''
    for h in range(max_halvings + 1):
        te = of.TorchEval(s)
        fp = te.least_fixed_point()
        if fp['ok'] and fp['rho_inf'] <= rho_max:
            fp['te'] = te
            return s, fp, h
        reason = fp.get('reason', f"rho_inf={fp.get('rho_inf')}")
        s = gen_fgg.scale_weights(s, 0.5)
    return None, reason, max_halvings


def viterbi_reference(spec):
    """Exact max-plus least fixed point for specs whose real weights are all <= 1 (log-weights <= 0):
    Kleene iteration is stationary after at most (#cells + 1) rounds."""
    ev = of.NumEval(spec, of.MaxPlusOps)
    cells = sum(max(1, int(__import__('numpy').prod(ev.shape[x]))) for x in ev.nts)
    x, rounds = ev.kleene(cells + 3)
    return x, rounds


def bool_reference(spec):
    ev = of.NumEval(spec, of.BoolOps)
    cells = sum(max(1, int(__import__('numpy').prod(ev.shape[x]))) for x in ev.nts)
    x, rounds = ev.kleene(cells + 3)
    return x, rounds
