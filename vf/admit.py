"""Admission of recursive specs for Real/Log checks: deterministic rescaling until the least fixed point is
finite and the Jacobian inf-norm at the fixed point is <= rho_max (so that a-posteriori error bounds hold)."""
from __future__ import annotations
from . import gen_fgg, oracle_fgg as of


def admit(spec, rho_max=0.9, max_halvings=6):
    """Returns (spec', fp, halvings) with fp = TorchEval.least_fixed_point() result (ok=True, rho_inf<=rho_max),
    or (None, reason, halvings)."""
    s = spec
    reason = ''
    for h in range(max_halvings + 1):
        te = of.TorchEval(s)
        fp = te.least_fixed_point()
        if fp['ok'] and fp['rho_inf'] <= rho_max:
            fp['te'] = te
            return s, fp, h
        reason = fp.get('reason', f"rho_inf={fp.get('rho_inf')}")
        s = gen_fgg.scale_weights(s, 0.5)
    return None, reason, max_halvings


def viterbi_reference(spec):
    """Exact max-plus least fixed point for specs whose real weights are all <= 1 (log-weights <= 0):
    Kleene iteration is stationary after at most (#cells + 1) rounds."""
    ev = of.NumEval(spec, of.MaxPlusOps)
    cells = sum(max(1, int(__import__('numpy').prod(ev.shape[x]))) for x in ev.nts)
    x, rounds = ev.kleene(cells + 3)
    return x, rounds


def bool_reference(spec):
    ev = of.NumEval(spec, of.BoolOps)
    cells = sum(max(1, int(__import__('numpy').prod(ev.shape[x]))) for x in ev.nts)
    x, rounds = ev.kleene(cells + 3)
    return x, rounds


def gradient_sensitivity(fp, start, cot, names, B, log_domain=False):
    """First-order bound on how much the gradient moves when the fixed point is only known to within B (sup norm):
    |g(x*) - g(x* - B)| per weight entry, computed with the oracle's own formulas (iterates approach x* from below).
    For the Log semiring, cot is the cotangent on log Z and the result is for d/d log w."""
    import torch
    te = fp['te']
    v = fp['vec']
    vp = torch.where(v > 0, (v - B).clamp_min(0.0), v)
    Jp = te.jacobian(vp)
    def grads(vec, J):
        Z = te.unpack(vec)[start]
        if log_domain:
            mask = Z > 0
            c_eff = torch.where(mask, cot / torch.where(mask, Z, torch.ones_like(Z)), torch.zeros_like(Z))
            g = te.gradients(vec, J, c_eff, start, names)
            return {n: (g[n] * te.w[n]).numpy() for n in names}
        g = te.gradients(vec, J, cot, start, names)
        return {n: g[n].numpy() for n in names}
    g0 = grads(v, fp['J'])
    g1 = grads(vp, Jp)
    import numpy as np
    return {n: np.abs(g0[n] - g1[n]) for n in names}
