#!/bin/sh
# Offline setup: make sure hypothesis is importable in /venv (it is pre-installed in this image;
# otherwise install it from the offline wheelhouse).  Nothing else needs building: fggs is pure Python
# and every check imports it from $VERIF_REPO (default /repo) at run time.
PY="${VERIF_PYTHON:-/venv/bin/python}"
if ! "$PY" -c "import hypothesis" 2>/dev/null; then
  /venv/bin/pip install --no-index --find-links /opt/veriftools/wheels hypothesis || exit 1
fi
"$PY" -c "import hypothesis, torch, torch_semiring_einsum; print('setup ok: hypothesis', hypothesis.__version__, 'torch', torch.__version__)"
