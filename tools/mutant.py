#!/usr/bin/env python3
"""Sensitivity helper: copy /repo to a scratch dir, apply one textual mutation (or a patch file),
run a command with VERIF_REPO pointing at the copy, remove the copy.

  tools/mutant.py --file fggs/utils.py --old 'elif w in onstack:' --new 'else:' -- ./check C19
  tools/mutant.py --patch seeded/C19-x/patch.diff -- ./check C19
"""
import argparse, os, shutil, subprocess, sys, tempfile

ap = argparse.ArgumentParser()
ap.add_argument('--file'); ap.add_argument('--old'); ap.add_argument('--new')
ap.add_argument('--patch')
ap.add_argument('--count', type=int, default=1, help='which occurrence (1-based); 0 = all')
ap.add_argument('cmd', nargs=argparse.REMAINDER)
a = ap.parse_args()
cmd = a.cmd[1:] if a.cmd and a.cmd[0] == '--' else a.cmd
src = os.environ.get('MUT_SRC', '/repo')
d = tempfile.mkdtemp(prefix='fggs-mut-', dir='/tmp')
try:
    for sub in ('fggs', 'bin', 'test'):
        shutil.copytree(os.path.join(src, sub), os.path.join(d, sub), ignore=shutil.ignore_patterns('__pycache__'))
    if a.patch:
        r = subprocess.run(['patch', '-p1', '-s', '-d', d, '-i', os.path.abspath(a.patch)])
        if r.returncode: sys.exit('patch failed')
    else:
        p = os.path.join(d, a.file)
        s = open(p).read()
        n = s.count(a.old)
        if n == 0: sys.exit(f'mutation site not found in {a.file}')
        if a.count == 0:
            s = s.replace(a.old, a.new)
        else:
            idx = -1
            for _ in range(a.count):
                idx = s.index(a.old, idx + 1)
            s = s[:idx] + a.new + s[idx + len(a.old):]
        open(p, 'w').write(s)
    env = dict(os.environ, VERIF_REPO=d)
    rc = subprocess.run(cmd, env=env).returncode
    print(f'[mutant] exit={rc}')
    sys.exit(rc)
finally:
    shutil.rmtree(d, ignore_errors=True)
