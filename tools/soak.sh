#!/bin/sh
# Soak: run the given checks at several seeds (thorough tier) and report any non-zero exit.
# usage: tools/soak.sh "C01 C02" "11 12 13" [tier]
props="$1"; seeds="$2"; tier="${3:-thorough}"
for s in $seeds; do for p in $props; do
  out=$(VERIF_SEED=$s ./check $p --tier $tier 2>&1); rc=$?
  echo "$out" | tail -1
  if [ $rc -ne 0 ]; then echo "SOAK-FAIL $p seed=$s rc=$rc"; echo "$out" | tail -8; cp -r replays replays-soak-$p-$s 2>/dev/null; fi
done; done
