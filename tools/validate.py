#!/usr/bin/env python3
"""Validate MANIFEST.json and all evidence files against the schemas (run with python3-vt: needs jsonschema)."""
import json, glob, sys, jsonschema
ok = True
m = json.load(open('MANIFEST.json')); jsonschema.validate(m, json.load(open('/root/.vp/MANIFEST.schema.json')))
es = json.load(open('/root/.vp/EVIDENCE.schema.json'))
for c in m['checks']:
    try:
        jsonschema.validate(json.load(open(c['evidence_file'])), es)
    except Exception as e:
        ok = False; print('BAD', c['evidence_file'], str(e)[:300])
print('manifest ok;', len(m['checks']), 'checks; evidence', 'ok' if ok else 'BAD')
sys.exit(0 if ok else 1)
