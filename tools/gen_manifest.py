#!/usr/bin/env python3
"""Regenerates MANIFEST.json from the table below (single source of truth for what is claimed)."""
import json, os, sys
here = os.path.dirname(os.path.dirname(os.path.abspath(__file__)))

# id -> (technique, level text, level note, design ref)
CLAIMS = {
 'C19': ("exhaustive enumeration of small digraphs + Hypothesis random digraphs/HRG specs vs. transitive-closure oracle",
         "Every digraph with self-loops on <=4 (quick) / <=5 (thorough) vertices is run through scc under several key "
         "insertion orders and compared with a boolean transitive-closure oracle (partition, component identity, "
         "dependency order); random digraphs up to 8/10 vertices and generated HRG specs (nonterminal_graph, keys of "
         "sum_products; also with edit histories and re-queried after a rule was edited) extend this. Exhaustive within the bound, sampled beyond it; no claim above the bound.",
         "Trusted: the closure oracle in vf/props/c19.py (self-checked), Hypothesis, the adjacency-mapping input convention.",
         "DESIGN.md section 5, C19"),
 'C10': ("exhaustive enumeration of small graphs + Hypothesis random/structured/min-fill-hard graphs vs. validity predicate and exact subset-DP treewidth",
         "All labelled simple graphs on <=5 (quick) / <=6 (thorough) vertices x {min_fill, quickbb, acb}: the returned bag graph must be a "
         "tree covering every vertex and edge with connected occurrence sets; acb and quickbb widths must equal the exact treewidth "
         "(independent subset DP); min_fill's reported width must be the width of its order and of its decomposition; helper bounds "
         "must bracket the treewidth. Random G(n,p) to 9/11 vertices, structured families and a corpus of graphs on which min-fill is "
         "suboptimal (so quickbb's search is exercised) extend it. Exhaustive within the bound only.",
         "Trusted: vf/oracle_graph.py (self-checked on known treewidths), Hypothesis. Fresh argument copy per call.",
         "DESIGN.md section 5, C10"),
 'C01': ("Hypothesis-generated non-recursive grammar specs vs. independent numpy grammar evaluator (differential oracle), all semirings/dtypes/methods",
         "Generated non-recursive FGGs covering every edge shape the statement lists (measured class histogram in the evidence; dense and patterned factor weights, the latter also with defaults other than the semiring zero) are "
         "evaluated by sum_product/sum_products/singleton_fgg in sampled semiring x dtype x method x j_precompute configurations and "
         "compared entrywise with an evaluator written from the definition (all assignments of all rhs nodes, 0*inf=0), which is itself "
         "cross-checked against explicit derivation enumeration + brute-force summation at start-up. Sampled, bounded sizes; no proof.",
         "Trusted: vf/oracle_fgg.py NumEval (self-checked against O6), numpy, Hypothesis; tolerances rtol 1e-9/1e-4, inf and zero exact.",
         "DESIGN.md section 5, C01"),
 'C02': ("Hypothesis-generated recursive grammar specs vs. independent least-fixed-point references (exact Kleene for Bool/Viterbi; Newton+autograd with a-posteriori contraction bound for Real/Log); warning and ValueError behaviour checked",
         "Recursive FGGs (self-loops, mutual recursion, linear and non-linear, weight-one cycles, chained SCCs) x semiring x method x (tol,kmax): "
         "Bool/Viterbi results must equal an exact Kleene reference unless the run warned; Real/Log results of runs that did not warn must lie within "
         "the derived bound tol/(1-rho) of an independently computed least fixed point (rho = Jacobian inf-norm at the fixed point, <=0.9 by "
         "deterministic rescaling), runs that warned must stay below it; method='linear' must raise ValueError exactly on non-linear recursion. "
         "tol includes 0; a closed-form near-critical family (cycle weights within 1e-15 of one, log-weights given directly) and grammars wrapped in a diamond of sibling nonterminals extend the sampled space. Sampled; bound derived in DESIGN.md, not tuned.",
         "Trusted: vf/oracle_fgg.py (TorchEval Newton reference verified by residual; NumEval Kleene), torch autograd/linalg, Hypothesis.",
         "DESIGN.md section 5, C02"),
 'C04': ("Hypothesis-generated grammars with log-weights vs. own well-formedness predicate and exact max-plus reference (validity predicate + differential oracle; ties accepted)",
         "For generated recursive (log-weights <= 0, incl. weight-one cycles) and non-recursive grammars and every start assignment with a finite "
         "optimum, the FGGDerivation returned by viterbi is checked recursively for well-formedness (rule membership, one child per nonterminal "
         "edge, total in-range assignment, externals agree with the parent), its own log-weight and the log-weight of derive()'s graph+assignment "
         "must equal the exact Kleene max-plus optimum and the Viterbi-semiring sum_product; a third of the grammars have weights that require gradients. Any exception is a failure. Sampled, bounded sizes.",
         "Trusted: vf/oracle_fgg.py NumEval(MaxPlus) Kleene reference, the predicate in vf/props/c04.py, Hypothesis.",
         "DESIGN.md section 5, C04"),
 'C05': ("Hypothesis-generated grammars x 3 methods x 5 entry points; round-trip oracle (own inlining of fresh nonterminals must reproduce each rule, identity then isomorphism) + differential sum-product + instrumentation of the method argument",
         "For generated HRG/FGGs with isolated nodes, several components, nullary/repeated-attachment edges and clash-baiting nonterminal names, "
         "each of factorize_fgg/factorize_hrg/factorize_rule (labels None, a label set, a rule of a copy) x {min_fill,quickbb,acb} is checked: "
         "start, terminals, factors, domains unchanged; every fresh nonterminal has exactly one rule and inlining them reproduces the original "
         "rule (no node/edge lost, duplicated, re-attached); fresh names distinct and unused; no new rule wider than its origin; the method "
         "reaching tree_decomposition equals the requested one; sum-product unchanged and equal to the independent evaluator. Sampled.",
         "Trusted: own inliner/isomorphism in vf/props/c05.py + vf/iso.py, vf/oracle_fgg.py, harness-side wrapper recording tree_decomposition's method.",
         "DESIGN.md section 5, C05"),
 'C07': ("Hypothesis-generated typed einsum equations over patterned operands vs. brute-force semiring loop on independently interpreted dense twins (differential oracle); arg-max pointers validated by plugging back",
         "Generated signatures (<=4 indices, <=3 operands, repeated indices, empty operand list, zero-size axes) with operands drawn as typed "
         "patterns (products, sums, shared axes, stride-0 views, arbitrary defaults; also one object passed twice or with a reversed view of itself, and operands selecting disjoint summands of a shared index) are evaluated by einsum/mv/mm in all four semirings, with and "
         "without requires_grad (selecting the equation-reduction path), and compared with a numpy brute-force loop using 0*inf=0; for "
         "log_viterbi_einsum_forward the pointer tensor must have one entry per summed-out index and attain the maximum in every finite cell. Sampled.",
         "Trusted: vf/gen_pattern.py dense interpreter (written from the module docstring, self-checked on its two examples), numpy, Hypothesis. "
         "Operands of one equation share index types (documented precondition); +inf not generated for the arg-max variant.",
         "DESIGN.md section 5, C07"),
 'C06': ("Hypothesis-generated typed patterned tensors + short operation programs vs. torch on independently interpreted dense twins (differential/model-based oracle), representation invariant instrumented inside library calls",
         "Pools of patterned tensors over common index types (products, sums, shared axes, stride-0 views, defaults incl. +-inf, NaN and values a conversion's target dtype cannot represent; scenarios for identity defaults, NaN defaults, narrowing conversions, diagonal where, projection onto the tensor's own axes) are driven through "
         "programs of 1-4 operations covering every operation named in the statement (60 operation kinds incl. in-place forms on clones, where, any, "
         "log_softmax, indexing, iteration, tolist, shape ops, stack, clone/copy_/to/default_to/project/dim_to_dense, reshape/view incl. the "
         "mandatory-success class); after every step to_dense() must equal the torch operation on the dense twins (NaN positions coincide) and the "
         "representation invariant (sizes, no size-1 physical axis, distinct axes, injective in-range index map) must hold for the result and for every "
         "PatternedTensor constructed inside the call. Sampled, bounded sizes.",
         "Trusted: vf/gen_pattern.py interpreter (from the docstring; agreement with to_dense asserted on every input), torch CPU kernels as reference, Hypothesis. "
         "Mixed-dtype operands, norm and repeat are not generated (outside the statement).",
         "DESIGN.md section 5, C06"),
 'C08': ("Hypothesis-generated carrier triples (incl. zero, infinite element, subnormals, huge values, values at the radius of convergence) checked against the algebraic laws with per-law exactness classes; Bool exhaustive; closed-form star oracle in high-precision decimal; Tensor-vs-PatternedTensor differential",
         "Each semiring x dtype: commutativity, identities, annihilation (incl. 0*inf), add_=add bit-exactly; sum=fold, associativity, distributivity, from_int "
         "homomorphism and sub(x,y)+y=x within 4 ulp / 8 eps absolute on triples whose exact partial results (fractions) stay in the normal range; star against "
         "the closed form of the least solution (1/(1-x), -log(1-e^x) in 60-420-digit decimal, 0/inf, True); add/mul/sub on typed PatternedTensors must equal "
         "the Tensor result. Bool: all 8 triples in every case. Sampled for the float carriers.",
         "Trusted: Python fractions/decimal as exact arithmetic, vf/gen_pattern.py for patterned operands, Hypothesis. IEEE range effects are skipped and counted, not judged.",
         "DESIGN.md section 5, C08"),
 'C09': ("Hypothesis-generated dense, patterned and block-structured linear systems vs. an independent dense least-solution oracle (SCC condensation + Perron-Frobenius classification; Bellman-Ford; reachability); arguments snapshot-compared",
         "Semiring.solve, PatternedTensor.solve and multi_solve (both transpose values, random absent blocks, dense and patterned blocks, scalar to 2-d block shapes) "
         "and multi_mv are compared with an oracle that decides, per strongly connected block, whether the sum of A^n b converges (spectral radius <1, =1, >1, "
         "infinite entries; Viterbi non-positive / zero / positive cycles; Bool reachability) and takes the infinite value where it diverges; arguments must be "
         "bit-identical afterwards. Entries at spectral radius exactly 1 with inexact intermediates may be inf or >=1e8. Additionally all 2^9 present/absent patterns of a 3x3 block system x transpose x {Real,Bool} are enumerated exhaustively; PatternedTensor.solve operands may share PhysicalAxis objects. Otherwise sampled; <=12 unknowns.",
         "Trusted: vf/oracle_solve.py (self-checked against Kleene iteration), numpy.linalg, vf/gen_pattern.py, Hypothesis. Undecidable spectral radii are skipped and counted.",
         "DESIGN.md section 5, C09"),
 'C13': ("Hypothesis-generated pairs of typed patterned tensors (equal by construction, singly perturbed, random, shape-mismatched, self-vs-permutation) and MultiTensors vs. torch.equal/torch.allclose on independently interpreted dense twins",
         "For pairs whose supports overlap fully, partially or not at all, with defaults visible or covered, equal/allclose (both argument orders, tolerances in "
         "{0,1e-8,.05,.5,2}^2, equal_nan) must return exactly what torch.equal/torch.allclose return on the dense tensors; a NaN-free tensor must equal its clone, "
         "densification, freshened/detached copy, itself and its double transpose; square tensors are also compared with their own transposes (shared axes); "
         "equal_default/allclose_default and MultiTensor.allclose (absent block = zero, either side) are judged the same way. Sampled; outcomes ~50% True.",
         "Trusted: vf/gen_pattern.py interpreter, torch.equal/allclose as the definition of (approximate) equality, Hypothesis.",
         "DESIGN.md section 5, C13"),
 'C03': ("Hypothesis-generated grammars (admitted by an independent contraction test) vs. independent implicit differentiation of a dense torch re-implementation of the grammar equations (differential oracle on gradients)",
         "For recursive and non-recursive grammars with shared factors, factors that cannot influence the start, disconnected nodes, edges on external nodes and "
         "typed patterned weights, x {Real,Log} x method x random output cotangent x two ways of making weights leaves, the gradients produced by backward() "
         "through sum_product (tol 1e-12) are compared entry by entry with d<c,Z>/dw (Real) resp. d<c,log Z>/d log w over finite log-weights and start cells "
         "with Z>0 (Log), computed by an independent transposed solve (I-J)^T g = c at an independently computed least fixed point plus autograd through one "
         "application of the equations. Sampled; only specs with Jacobian inf-norm <= 0.9 at the fixed point are judged.",
         "Trusted: vf/oracle_fgg.py TorchEval (Newton least fixed point verified by residual and exact Boolean support; gradients self-checked on a closed form), torch autograd/linalg, Hypothesis.",
         "DESIGN.md section 5, C03"),
 'C11': ("Hypothesis-generated admitted grammars run through the full option cross product, each compared with an independent reference (values and gradients) and with each other (metamorphic/differential); interpreter clause by differential execution of one driver under python, -O, -OO",
         "Per generated grammar every admissible combination of {Real,Log,Viterbi,Bool} x {fixed-point,newton,linear} x j_precompute x {float64,float32} is run; "
         "values must lie within the derived bound of the independent least fixed point, Real/Log gradients within 1e-6 of independent implicit differentiation, "
         "Log = log(Real), Bool = support, Viterbi <= Log; batches of grammars are evaluated by the same driver under python, python -O and python -OO and must "
         "produce identical output (assertions must be checks only). bin/sum_product.py is also run with -o and its printed gradients compared with the in-process ones. One listed open finding (j_precompute=True on grammars with a rule satisfying one of four structural preconditions) is routed by a structural + "
         "differential predicate (fails only with j_precompute=True) and reported as KNOWN-FINDING; everything else is a violation. Sampled.",
         "Trusted: vf/oracle_fgg.py references, vf/c11_driver.py, the interpreter flags. bin/sum_product.py (-d -G, optionally -o) is run under the three interpreter modes per batch.",
         "DESIGN.md section 5, C11"),
 'C12': ("Hypothesis-generated grammars + random presentation transforms (metamorphic relation), both presentations also compared with the independent evaluator",
         "Each grammar is built twice: as drawn and under a random transform (rule order, node/edge insertion order, top-down vs bottom-up construction, explicit vs implicit ids, renamed "
         "labels, FiniteDomain vs RangeDomain, permuted domain values with factor axes permuted accordingly). sum_product in sampled semiring/method "
         "configurations, Real/Log gradients mapped back through the permutation, and the weight of the viterbi derivation must agree between the two "
         "and with the reference. Shards run under different PYTHONHASHSEED values, so set/dict iteration orders inside the solvers vary too. Sampled.",
         "Trusted: the transform in vf/props/c12.py (self-checked inverse), vf/oracle_fgg.py, Hypothesis.",
         "DESIGN.md section 5, C12"),
 'C14': ("Hypothesis-generated grammars and patterned weight specifications: round-trip oracle (serialise, json.dumps/loads, parse, compare up to isomorphism; verbatim second trip), independent interpreter for weight specs, rejection oracle for corrupted node numbers",
         "Grammars with implicit/explicit/mixed ids, finite (string/int) and range domains, dense and patterned weights, inf entries, unused labels and any "
         "start arity are serialised and parsed back: start, label tables, per-lhs rule order, rule isomorphism (externals in order, explicit ids kept), "
         "domains, dense weights and the sum-product must be preserved; with all ids explicit the JSON must be reproduced verbatim. Patterned weight "
         "specs {physical, expand, vaxes, default} must denote what an independent interpreter says. A valid JSON with one attachment/external number made "
         "negative or too large must be rejected with ValueError by json_to_fgg and json_to_hrg. Sampled.",
         "Trusted: vf/iso.py brute-force isomorphism, vf/gen_pattern.py interpreter, vf/oracle_fgg.py, Python json, Hypothesis.",
         "DESIGN.md section 5, C14"),
 'C15': ("Hypothesis-generated derivation trees and linearisations: per-step before/after snapshot oracle on replace_edge, confluence under provenance naming against an independent expansion, derive() judged by isomorphism and weight",
         "For generated grammars, derivation trees of up to 12 rule instances and 2-4 (8) different orders of rewriting the pending nonterminal edges, every "
         "replace_edge call is checked against the statement clause by clause (only that edge removed, externals identified with attachment nodes in order, "
         "all other nodes/edges copied once as fresh objects with unused ids, labels and attachment order kept, graph/ext/replacement otherwise untouched; wrong "
         "type => ValueError and no change); the final graphs of all orders and of an independent expansion coincide under provenance naming; derive() yields an "
         "isomorphic graph with a total assignment whose weight product equals the product over rule instances (also when equal sub-derivations are one shared object, and when a right-hand side's ext was reassigned after its type had been read). Sampled.",
         "Trusted: vf/oracle_fgg.py expand (independent replacement), vf/iso.py, Hypothesis. Right-hand sides have distinct external nodes.",
         "DESIGN.md section 5, C15"),
 'C20': ("Hypothesis-generated domains, weight arguments of right and wrong shapes and legal/illegal bindings: round-trip, acceptance/rejection and before/after-table oracles",
         "FiniteDomain/RangeDomain of size 0-6 over mixed hashable values: numberize/denumberize inverse, contains on members and non-members, equality by "
         "content (also after the caller mutates the list the domain was built from). FiniteFactor with nested-list, Tensor and typed PatternedTensor weights: accepted exactly when the shape is the tuple of domain sizes (one "
         "size off, permuted, extra/missing dimension, ragged list must raise), apply() equals the dense entry, equality by domains and dense weights "
         "(re-patterned copies equal, perturbed or other-domain copies unequal). add_factor/new_finite_factor/add_domain/shape on FGG and FactorGraph (label types may repeat a node label) in legal "
         "and nine illegal scenarios: accepted iff legal, otherwise ValueError/KeyError with the binding tables unchanged. Sampled.",
         "Trusted: vf/gen_pattern.py, Python equality of the generated values, Hypothesis.",
         "DESIGN.md section 5, C20"),
 'C17': ("Hypothesis-generated pairs of HRGs (projections of a drawn joint grammar over shared rule skeletons, plus one-sided rules, skeleton variants, clash-baiting names) vs. own conjoinability predicate, expected conjoined-rule signatures and derivation-count dynamic programme",
         "conjoin_hrgs(g1,g2) must produce exactly one rule per conjoinable ordered rule pair with the nodes and externals of the pair, one nonterminal edge "
         "per shared edge id labelled by the pair of labels, and the terminal edges of both; the numbers of derivations up to depth 4 of the conjunction "
         "and of same-shape conjoinable derivation pairs must coincide; paired names must be injective, unused in either grammar and typed like the first "
         "component; a genuine terminal conflict must raise ValueError and nothing else may. Arguments unchanged. Sampled.",
         "Trusted: the predicate/signature/DP code in vf/props/c17.py, Hypothesis; the pair->name map is read via fggs.conjunction.nonterminal_pairs and then checked.",
         "DESIGN.md section 5, C17"),
 'C16': ("model-based stateful testing: Hypothesis-generated operation sequences interpreted against a pool of Graph/FactorGraph/HRG/FGG objects with public-accessor snapshots before and after every call (history invariants)",
         "Sequences of up to 40 (60) public API calls -- including calls that must be rejected: duplicate ids (against the graph and among the arguments of one call), edges of the wrong arity, 'twin' nodes/edges re-using an id with other "
         "content, conflicting label types, terminal start symbols, wrong arity/domains, ill-shaped weights -- are applied to a pool of live objects. After "
         "every step: structural invariants of every object, failure atomicity (a raising call changes nothing), non-interference (only the target "
         "changes, so copies are independent, also under in-place changes of factor weights), copy == original incl. tables/domains/weights, and == is "
         "an equivalence that separates objects differing in nodes, edges, externals, rules or start. Sampled histories; shrunk as one value.",
         "Trusted: the snapshot/invariant code in vf/props/c16.py, Hypothesis. Graphs handed to a rule are frozen (stated precondition).",
         "DESIGN.md section 5, C16"),
 'C18': ("model-based stateful testing: Hypothesis-generated query sequences on shared objects with deep before/after snapshots (purity invariant) and memoised first results (reproducibility); in-place operations on clones vs. source snapshots",
         "A grammar is built once (dense/patterned weights incl. defaults other than the semiring zero, with or without requires_grad; snapshots also cover the attribute names of the argument objects and the process-wide torch state, implicit/explicit ids) and 4-10 queries -- sum_product/sum_products in all "
         "semirings and methods, viterbi, the three factorize entry points x 3 methods, conjoin_hrgs (incl. a pair of grammars over shared skeletons), fgg_to_json/"
         "hrg_to_json -- are run in a drawn order with repetitions; every argument's deep snapshot (object identities, ids, tables, storage bytes, strides, "
         "offsets, patterns, defaults, requires_grad, grad is None) must be unchanged by every call and every repeated query must return the same result "
         "(tensors bit-equal). Clones of patterned tensors / MultiTensors are mutated in place and the source's snapshot must not change. Sampled histories.",
         "Trusted: the snapshot/canonicalisation code in vf/props/c18.py, Hypothesis. j_precompute=True is left to C11 (open finding).",
         "DESIGN.md section 5, C18"),
}

NOT_YET = {}   # id -> reason (filled while the framework is being built)


def main():
    props = [json.loads(l) for l in open(os.path.join(here, 'properties.jsonl'))]
    checks, na = [], []
    for p in props:
        pid = p['id']
        if pid in CLAIMS:
            tech, text, note, ref = CLAIMS[pid]
            checks.append({
                'property_id': pid,
                'quick_cmd': f'./check {pid} --tier quick',
                'thorough_cmd': f'./check {pid} --tier thorough',
                'evidence_file': f'evidence/{pid}.json',
                'replay_cmd_template': f'./check {pid} --replay {{path}}',
                'engine': 'vf',
                'level_claimed': {'category': 'exploration', 'text': text, 'design_ref': ref},
                'level_note': note,
                'technique': tech,
            })
        else:
            na.append({'property_id': pid,
                       'reason': NOT_YET.get(pid, 'check not built yet (framework under construction); the technique applies, see DESIGN.md section 5')})
    m = {
        'version': 1,
        'setup_cmd': './setup.sh',
        'hooks': {
            'guard': 'FGGS_VERIF',
            'enable': 'no source hooks: instrumentation is harness-side monkeypatching, active only inside check worker processes (env FGGS_VERIF=1)',
            'baseline_off_cmd': 'cd /repo && /venv/bin/python -m pytest -ra -q -p no:cacheprovider --timeout=900 --continue-on-collection-errors',
            'source_commits': [],
            'add_only': True,
        },
        'engines': [{'name': 'vf', 'path': 'vf/', 'serves_properties': sorted(CLAIMS),
                     'kind_free_text': 'property-based testing: Hypothesis strategies + exhaustive enumeration of small spaces, 16 seeded shards, independent reference oracles'}],
        'checks': checks,
        'not_applicable': na,
        'notes': 'All checks: ./check <ID> --tier quick|thorough; VERIF_SEED selects the seed; VERIF_REPO (default /repo) selects the tree; exit 2 = harness error, never a violation. known_findings.json lists open/fixed genuine defects.',
    }
    with open(os.path.join(here, 'MANIFEST.json'), 'w') as f:
        json.dump(m, f, indent=1)
    print(f'{len(checks)} checks claimed, {len(na)} not claimed')


if __name__ == '__main__':
    main()
