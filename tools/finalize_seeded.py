#!/usr/bin/env python3
"""Adds the narrative fields to seeded/*/meta.json (property broken, what the change needs to manifest, what was run)."""
import json, os, glob
V = os.path.dirname(os.path.dirname(os.path.abspath(__file__)))
AFTER = {   # changes first missed (by the quick tier or entirely), then caught after the named strengthening
 'C06-1': ('missed by quick and thorough', 'C06: copy_ is now followed by an in-place operation on the destination and the source re-checked', 'quick'),
 'C06-2': ('missed by quick, caught by thorough', 'C06: identity-default scenario (sparse operand whose default is the identity of add/sub/mul/div/maximum/logaddexp)', 'quick'),
 'C13-1': ('missed by quick, caught by thorough', 'C13: rtol = 2 added to the tolerance alphabet (rtol >= 1 makes the scaling by |other| decisive next to a zero default)', 'quick'),
 'C18-2': ('missed by quick and thorough', 'C18: every grammar must stay == to a copy taken before the first query (sees rule-table entries the accessors do not show)', 'quick'),
 'C09-2': ('missed by quick, caught by thorough', 'C09: sparse-diagonal block scenario (few diagonal, many off-diagonal blocks)', 'quick'),
 'C03-1': ('missed by quick, caught by thorough', 'C03: dead-rule-first scenario (X -> D ..., D -> X D injected in front of X\'s productive rules)', 'quick'),
 'C20-1': ('(strengthened before the first evaluation, after reading the sub-agent\'s report)', 'C20: permuted / equal / prefix copies of a domain in the equality clause', 'quick'),
}
for d in sorted(glob.glob(os.path.join(V, 'seeded', '*'))):
    mp = os.path.join(d, 'meta.json')
    if not os.path.exists(mp): continue
    m = json.load(open(mp))
    name = m['name']
    notes = open(os.path.join(d, 'notes.md')).read() if os.path.exists(os.path.join(d, 'notes.md')) else ''
    m['breaks_property'] = m['property']
    m['needs_to_manifest'] = ' '.join(notes.split())[:1200]
    m['origin'] = 'fresh sub-agent that saw only the property text and its own scratch git worktree of /repo (nothing from /verif)'
    m['what_was_run'] = ('tools/eval_seeded.py: in a scratch copy of /repo under /tmp (removed afterwards): demo.py on the clean copy (exit 0), '
                         'patch applied, demo.py again (non-zero), the repository test-suite on the patched copy (110 passed), then '
                         './check <property> --tier quick (and thorough when quick missed it) with VERIF_REPO=<patched copy>')
    if name in AFTER:
        m['first_result'], m['strengthening'], m['detected_after_by_tier'] = AFTER[name]
    json.dump(m, open(mp, 'w'), indent=1)
    print(name, m.get('detected_by'), m.get('first_result', ''))
