#!/usr/bin/env python3
"""Adds the narrative fields to seeded/*/meta.json (property broken, what the change needs to manifest, what was run)."""
import json, os, glob
V = os.path.dirname(os.path.dirname(os.path.abspath(__file__)))
AFTER = {   # changes first missed (by the quick tier or entirely), then caught after the named strengthening
 'C06-1': ('missed by quick and thorough', 'C06: copy_ is now followed by an in-place operation on the destination and the source re-checked', 'quick'),
 'C06-2': ('missed by quick, caught by thorough', 'C06: identity-default scenario (sparse operand whose default is the identity of add/sub/mul/div/maximum/logaddexp)', 'quick'),
 'C13-1': ('missed by quick, caught by thorough', 'C13: rtol = 2 added to the tolerance alphabet (rtol >= 1 makes the scaling by |other| decisive next to a zero default)', 'quick'),
 'C18-2': ('missed by quick and thorough', 'C18: every grammar must stay == to a copy taken before the first query (sees rule-table entries the accessors do not show)', 'quick'),
 'C03-1': ('missed by quick, caught by thorough', 'C03: dead-rule-first scenario (X -> D ..., D -> X D injected in front of X\'s productive rules)', 'quick'),
 # ---- round 2
 'C02-3': ('missed by quick and thorough', 'C02: tol = 0 added to the tolerance alphabet (iterate until nothing changes; bound = rounding slack)', 'quick'),
 'C06-3': ('missed by quick and thorough', 'C06: NaN defaults generated; NaN-default scenario (one sparse operand with default NaN, either order, same-pattern twin)', 'quick'),
 'C06-4': ('missed by quick and thorough', 'C06: fractional defaults generated; narrowing-conversion scenario (to(int64) of a tensor with a fractional default, then a scalar operation on the result)', 'quick'),
 'C08-3': ('missed by quick and thorough', 'C08: operands of different ndim (the lower-ndim operand on either side is broadcast), up to 3 dims', 'quick'),
 'C08-4': ('missed by quick, caught by thorough', 'C08: same-pattern pairs (twin operand with other values and default) so that off-pattern elements come from the two defaults only', 'quick'),
 'C09-3': ('missed by quick and thorough', 'C09: b built on some of a\'s PhysicalAxis objects; correlated-axes scenario over product types of equal atoms', 'quick'),
 'C09-2': ('missed by quick, caught by thorough (round 1: sparse-diagonal scenario made quick catch it, later generator changes lost it again)', 'C09: exhaustive enumeration of all 2^9 present/absent patterns of a 3x3 block system x transpose x {Real,Bool}', 'quick'),
 'C11-3': ('missed by C11 quick and thorough (caught by C03 quick unchanged)', 'C11: dead-rule injection shared with C03 (gen_fgg.inject_dead_rule)', 'quick'),
 'C12-1': ('caught by quick in round 1 by chance; lost after round-2 generator changes', 'C12: dead-rule injection', 'quick'),
 'C12-3': ('missed by quick, caught by thorough', 'C12: nonlinear-tail scenario (X -> X X ... t with a terminal used nowhere else after the nonterminal edges)', 'quick'),
 'C12-4': ('missed by quick, caught by thorough', 'C12: bottom-up construction in the presentation transform (provisional start symbol, real one assigned after the rules)', 'quick'),
 'C14-4': ('missed by quick and thorough', 'C14: weight specifications written with JSON integer literals, fractional default 0.5', 'quick'),
 'C17-4': ('missed by quick and thorough', 'C17: terminal conflict placed in a rule whose skeleton exists only in g2, next to a harmless same-name pair that comes first in g1\'s label order', 'quick'),
 'C18-4': ('missed by quick and thorough', 'C18: viterbi also asked on the Log-semiring grammar whose weights require gradients; sum_product results carry requires_grad', 'quick'),
 'C19-4': ('missed by quick and thorough', 'C19: HRGs with an edit history (nonterminal edge added to a right-hand side and removed again, before or after add_rule)', 'quick'),
 'C20-3': ('missed by quick and thorough', 'C20: node labels repeated in the edge label\'s type, wrong domain at any occurrence', 'quick'),
 'C20-4': ('missed by quick and thorough', 'C20: the list a FiniteDomain was built from is mutated afterwards', 'quick'),
 # ---- round 3
 'C02-5': ('missed by quick and thorough', 'C02: near-critical closed-form family S(v) -> S(v) a(v) | b(v) with cycle log-weights -f 2^-k given directly in the log domain (k <= 50)', 'quick'),
 'C02-6': ('missed by quick, caught by thorough', 'C02: diamond injection (new start S0 -> D0 E0 F0 over the old start: siblings over a finished SCC)', 'quick'),
 'C06-5': ('missed by quick, caught by thorough', 'C06: where-diagonal scenario (operand carrying one PhysicalAxis in several dimensions, dense or broadcast condition)', 'quick'),
 'C06-6': ('missed by quick, caught by thorough', 'C06: project onto a transposed view of the tensor itself (target pattern built on the tensor\'s own axes)', 'quick'),
 'C07-6': ('missed by quick and thorough', 'C07: aliased operands (one object passed twice, or with a dimension-reversed view of itself) and structured scenarios where shared axes occur only nested', 'quick'),
 'C07-5': ('caught by quick at first; lost after the alias change shifted the generator stream', 'C07: disjoint-sum scenario (operands select different summands of a shared index while another shared index unifies)', 'quick'),
 'C07-4': ('caught by quick in round 2; lost after round-3 generator changes', 'C07: viterbi-ptr scenario with three output axes and a summed-out index tied to one of them', 'quick'),
 'C11-6': ('missed by quick, caught by thorough', 'C11: the open finding D15 is identified by structural preconditions P1-P4 instead of "any rule with two edges", so j_precompute-only failures on other rule shapes are reported', 'quick'),
 'C12-5': ('missed by C12 quick and thorough (C04 quick catches it)', 'C12: viterbi comparison on the unscaled spec (weights of exactly one: exact ties, zero-cost cycles), up to three start assignments', 'quick'),
 'C15-5': ('missed by quick and thorough', 'C15: equal sub-derivations represented by ONE FGGDerivation object that is the child of several edges', 'quick'),
 'C16-6': ('missed by quick and thorough', 'C16: operations that bring in two different new nodes with one id in a single add_edge / ext= call', 'quick'),
 'C18-5': ('missed by quick and thorough', 'C18: JSON writers asked about the Log/Viterbi grammars (weights contain -inf)', 'quick'),
 'C18-6': ('missed by quick and thorough', 'C18: patterned weights whose default is not the semiring zero', 'quick'),
 'C19-5': ('missed by quick and thorough', 'C19: grammar queried, then a rule already in it gets a nonterminal edge added/removed, then queried again', 'quick'),
 # ---- round 4
 'C01-7': ('missed by quick and thorough', 'C01: patterned factor weights whose default is not the semiring zero', 'quick'),
 'C01-8': ('missed by quick, caught by thorough', 'C01: expanded-child injection (S1(q,p,r) -> Y0(p,q) f0(r) with edgeless externals in Y0)', 'quick'),
 'C03-8': ('missed (the check had no -e route; the demonstration also had to be made independent of the sub-agent\'s worktree path, and the patch rebased after repair D30 touched the same line)', 'C03/C11: command-line route with -w ... -g -e -o, expected counts compared with w*grad/f', 'quick'),
 'C06-7': ('missed by quick, caught by thorough', 'C06: absorbing-default scenario (sparse operand with default 0 times an operand storing inf/nan outside its pattern)', 'quick'),
 'C08-8': ('missed by quick and thorough', 'C08: operand pairs that decompose the same dimensions differently (statement: "of any pattern")', 'quick'),
 'C11-7': ('first evaluation timed out under load; separately: missed by quick, caught by thorough (C02 and C13 quick catch it)', 'C11: fixed case with values of magnitude 1e9', 'quick'),
 'C11-8': ('missed by quick, caught by thorough', 'C11: fixed cases running the command-line route in its three variants in every run', 'quick'),
 'C14-8': ('missed by quick and thorough', 'C14: patterned factor weights with non-zero / infinite defaults, patterned weights in half of the round trips', 'quick'),
 'C15-7': ('missed by quick and thorough', 'C15: rule right-hand sides whose ext was assigned twice with the type read in between', 'quick'),
 'C16-7': ('missed by quick and thorough', 'C16: edges whose attachment nodes are a proper prefix of / longer than the label type', 'quick'),
 'C18-7': ('missed by quick and thorough', 'C18: snapshots include the attribute names of the grammar and rule-graph objects', 'quick'),
 'C18-8': ('missed by quick and thorough', 'C18: snapshots include the process-wide torch state; method=linear on non-linear grammars is asked (raises)', 'quick'),
 # ---- round 5
 'C09-9': ('missed by quick and thorough', 'gen_pattern.build_pt: a third of all physical tensors are views with storage offset 3, another third additionally have non-standard strides (all pattern-based checks C06-C09, C13, C14, C20 inherit it)', 'quick'),
 'C14-10': ('missed by quick and thorough', 'C14: ids given explicitly must be the object\'s ids and persistent whatever their value; the first node of each rule is named \'\' in every other case', 'quick'),
 'C17-9': ('missed by quick and thorough', 'C17: the conflicting terminal has the same arity and kind but another node label ([B] against [A]) in half of the conflict cases', 'quick'),
 'C03-9': ('missed by quick and thorough', 'C03/C11 command-line route: -t in half of the runs, gradients must stay those of the start symbol', 'quick'),
 'C12-9': ('missed by quick, caught by thorough', 'C12: duplicate-production scenario (last rule listed twice, ids explicit and unique per rule only)', 'quick'),
 'C07-9': ('missed by quick (thorough not decisive either)', '(open: degenerate sum types SumAxis(0, unit, 0) are not generated by G2; see DESIGN 9.6 round 5)', 'missed'),
 'C20-1': ('(strengthened before the first evaluation, after reading the sub-agent\'s report)', 'C20: permuted / equal / prefix copies of a domain in the equality clause', 'quick'),
}
for d in sorted(glob.glob(os.path.join(V, 'seeded', '*'))):
    mp = os.path.join(d, 'meta.json')
    if not os.path.exists(mp): continue
    m = json.load(open(mp))
    name = m['name']
    notes = open(os.path.join(d, 'notes.md')).read() if os.path.exists(os.path.join(d, 'notes.md')) else ''
    m['breaks_property'] = m['property']
    m['needs_to_manifest'] = ' '.join(notes.split())[:1200]
    m['origin'] = 'fresh sub-agent that saw only the property text and its own scratch git worktree of /repo (nothing from /verif)'
    m['what_was_run'] = ('tools/eval_seeded.py: in a scratch copy of /repo under /tmp (removed afterwards): demo.py on the clean copy (exit 0), '
                         'patch applied, demo.py again (non-zero), the repository test-suite on the patched copy (110 passed), then '
                         './check <property> --tier quick (and thorough when quick missed it) with VERIF_REPO=<patched copy>')
    if name in AFTER:
        m['first_result'], m['strengthening'], m['detected_after_by_tier'] = AFTER[name]
    json.dump(m, open(mp, 'w'), indent=1)
    print(name, m.get('detected_by'), m.get('first_result', ''))
