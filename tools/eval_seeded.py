#!/usr/bin/env python3
"""Confirm a seeded change and run the checks against it.

  tools/eval_seeded.py --src /tmp/wt-C01/_seed/1 --prop C01 --name C01-1 [--also C11,C12] [--keep]

Steps (all in a scratch copy of /repo's working tree under /tmp, removed afterwards):
  1. demo.py exits 0 on the clean copy;  2. patch applies;  3. demo.py exits non-zero on the patched copy;
  4. the repository's test-suite passes on the patched copy;  5. ./check <prop> (quick, then thorough if quick misses it)
     and the checks listed in --also run with VERIF_REPO=<patched copy>.
With --keep and steps 1-4 confirmed, the change is stored as /verif/seeded/<name>/ (patch.diff, demo.py, notes.md, meta.json).
"""
import argparse, json, os, shutil, subprocess, sys, tempfile, time

ap = argparse.ArgumentParser()
ap.add_argument('--src', required=True); ap.add_argument('--prop', required=True); ap.add_argument('--name', required=True)
ap.add_argument('--also', default=''); ap.add_argument('--keep', action='store_true'); ap.add_argument('--skip-tests', action='store_true')
ap.add_argument('--thorough', action='store_true', help='run the thorough tier even if quick detects')
a = ap.parse_args()
V = os.path.dirname(os.path.dirname(os.path.abspath(__file__)))
PY = '/venv/bin/python'


def run(cmd, cwd=None, env=None, timeout=3600):
    t = time.time()
    p = subprocess.run(cmd, cwd=cwd, env=env, capture_output=True, text=True, timeout=timeout)
    return p.returncode, (p.stdout + p.stderr)[-3000:], round(time.time() - t, 1)


d = tempfile.mkdtemp(prefix='fggs-seed-', dir='/tmp')
meta = {'name': a.name, 'property': a.prop, 'steps': {}}
try:
    for sub in ('fggs', 'bin', 'test'):
        shutil.copytree(os.path.join('/repo', sub), os.path.join(d, sub), ignore=shutil.ignore_patterns('__pycache__'))
    for f in ('README.md', 'pyproject.toml'):
        if os.path.exists(os.path.join('/repo', f)): shutil.copy(os.path.join('/repo', f), d)
    env = dict(os.environ, PYTHONPATH=d, OMP_NUM_THREADS='2')
    demo = os.path.join(a.src, 'demo.py'); patch = os.path.join(a.src, 'patch.diff')
    rc, out, t = run([PY, demo], cwd=d, env=env)
    meta['steps']['demo_clean'] = {'rc': rc, 's': t}
    ok = rc == 0
    if not ok: print('demo fails on the clean tree:\n' + out)
    rc, out, t = run(['patch', '-p1', '-s', '-i', os.path.abspath(patch)], cwd=d)
    meta['steps']['apply'] = {'rc': rc}
    if rc != 0: print('patch does not apply:\n' + out); ok = False
    if ok:
        rc, out, t = run([PY, demo], cwd=d, env=env)
        meta['steps']['demo_patched'] = {'rc': rc, 's': t, 'tail': out[-400:]}
        if rc == 0: print('demo passes on the patched tree'); ok = False
    if ok and not a.skip_tests:
        rc, out, t = run([PY, '-m', 'pytest', '-q', '-p', 'no:cacheprovider', '-x'], cwd=d, env=env)
        meta['steps']['tests_patched'] = {'rc': rc, 's': t, 'tail': out[-300:]}
        if rc != 0: print('test-suite fails with the patch:\n' + out[-1500:]); ok = False
    meta['confirmed'] = ok
    if ok:
        cenv = dict(os.environ, VERIF_REPO=d)
        results = {}
        for prop in [a.prop] + [p for p in a.also.split(',') if p]:
            rc, out, t = run([os.path.join(V, 'check'), prop, '--tier', 'quick'], cwd=V, env=cenv)
            results[prop] = {'quick': {'rc': rc, 's': t, 'line': [l for l in out.splitlines() if 'VIOLATION' in l or 'HARNESS' in l][:1]}}
            if (rc != 1 or a.thorough) and prop == a.prop:
                rc2, out2, t2 = run([os.path.join(V, 'check'), prop, '--tier', 'thorough'], cwd=V, env=cenv)
                results[prop]['thorough'] = {'rc': rc2, 's': t2, 'line': [l for l in out2.splitlines() if 'VIOLATION' in l or 'HARNESS' in l][:1]}
        meta['checks'] = results
        det = [p for p, r in results.items() if r['quick']['rc'] == 1 or r.get('thorough', {}).get('rc') == 1]
        meta['detected_by'] = det
        print(f"{a.name}: confirmed; detected by {det or 'NOTHING'}; " + json.dumps({p: {k: v['rc'] for k, v in r.items()} for p, r in results.items()}))
    else:
        print(f'{a.name}: NOT confirmed')
    if a.keep and ok:
        dst = os.path.join(V, 'seeded', a.name)
        os.makedirs(dst, exist_ok=True)
        for f in ('patch.diff', 'demo.py', 'notes.md'):
            if os.path.exists(os.path.join(a.src, f)): shutil.copy(os.path.join(a.src, f), dst)
        with open(os.path.join(dst, 'meta.json'), 'w') as f:
            json.dump(meta, f, indent=1)
finally:
    shutil.rmtree(d, ignore_errors=True)
    shutil.rmtree(os.path.join(V, 'replays'), ignore_errors=True)
