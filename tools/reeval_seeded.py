#!/usr/bin/env python3
"""Re-runs the quick tier of the owning check against every kept seeded change (scratch copy of /repo with the patch applied)
and records the outcome in seeded/current_results.json.  Usage: tools/reeval_seeded.py [name ...]"""
import json, os, re, subprocess, sys, glob
V = os.path.dirname(os.path.dirname(os.path.abspath(__file__)))
names = sys.argv[1:] or sorted(os.path.basename(d) for d in glob.glob(os.path.join(V, 'seeded', 'C*-*')) if os.path.isdir(d))
out_path = os.path.join(V, 'seeded', 'current_results.json')
res = json.load(open(out_path)) if os.path.exists(out_path) else {}
lean = os.environ.get('REEVAL_LEAN') == '1'      # lean: patch + quick check only (the demonstrations were run when the change was first confirmed)
for n in names:
    prop = n.split('-')[0]
    if lean:
        p = subprocess.run([sys.executable, os.path.join(V, 'tools', 'mutant.py'), '--patch', os.path.join(V, 'seeded', n, 'patch.diff'), '--',
                            os.path.join(V, 'check'), prop], capture_output=True, text=True, cwd=V)
        m = re.search(r'\[mutant\] exit=(\d+)', p.stdout + p.stderr)
        res[n] = {prop: {'quick': int(m.group(1))}} if m else {'error': (p.stdout + p.stderr)[-300:]}
        print(n, res[n], flush=True)
        json.dump(res, open(out_path, 'w'), indent=1, sort_keys=True)
        continue
    p = subprocess.run([sys.executable, os.path.join(V, 'tools', 'eval_seeded.py'), '--src', os.path.join(V, 'seeded', n), '--prop', prop,
                        '--name', n + '-re', '--skip-tests'], capture_output=True, text=True, cwd=V)
    line = [l for l in p.stdout.splitlines() if l.startswith(n + '-re')]
    m = re.search(r'\{.*\}$', line[-1]) if line else None
    res[n] = json.loads(m.group(0)) if m else {'error': (p.stdout + p.stderr)[-300:]}
    print(n, res[n], flush=True)
    json.dump(res, open(out_path, 'w'), indent=1, sort_keys=True)
